"""C07 -- hash strings parse and re-render without loss."""
import z3

from contracts.trusted import COMMON, fresh_str
from pyvc.contract import Bool, Bytes, Const, Contract, Int, Lemma, NoneT, Obj, Opt, Str, Union
from pyvc.runner import Bounded
from pyvc.values import SBool, SDict, SObj, SStr, SStub

LEVEL = "proof"
H = "passlib/utils/handlers.py"
EXPLANATION = (
    "The modular-crypt helpers are verified from their real source over arbitrary field values (string theory): "
    "render_mc2/render_mc3 produce ident + [rounds + '$'] + salt [+ '$' + checksum]; parse_mc2/parse_mc3 return exactly "
    "the fields of any string of that shape whose fields are '$'-free (unique decomposition proved by the solver), "
    "refuse zero-padded rounds; the round-trip lemmas parse(render(x)) == x and render(parse(h)) == h follow over the "
    "two contracts. sha256_crypt/sha512_crypt's own from_string (explicit and implicit rounds) is verified the same way. "
    "Regex-based formats and the libpass inspect/PHC records are covered by the bounded stand-in."
)
ASSUMPTIONS = [
    "decimal conversion: str(n) for n >= 0 is the SMT-LIB int.to.str (digits, no leading zero, str.to_int inverse)",
    "salt / checksum alphabets contain no '$' (enforced by _norm_salt/_norm_checksum: C09)",
    "regular-language membership proofs are undecided by z3/cvc5 on this image: regex-based parsers are bounded only",
]
NODOLLAR = "'$' not in {0}"
DIGITS = "{0}.isdigit() and not ({0}.startswith('0') and {0} != '0')"

parse_mc3_hash = Contract(
    "parse_mc3[full hash]", f"{H}::parse_mc3",
    params={"hash": Const(None), "prefix": Str(), "sep": Const("$"), "rounds_base": Const(10), "default_rounds": Const(None), "handler": Obj(fields={"name": "h"}),
            "R": Str(), "S": Str(), "C": Str()},
    setup=lambda it, args: {"hash": SStr(z3.Concat(it.to_z3(args["prefix"]), it.to_z3(args["R"]), z3.StringVal("$"), it.to_z3(args["S"]), z3.StringVal("$"), it.to_z3(args["C"])), "str")},
    requires=[NODOLLAR.format("R"), NODOLLAR.format("S"), NODOLLAR.format("C"), "len(C) > 0", DIGITS.format("R")],
    raises={}, split_limit=3,
    ensures=[("fields are returned exactly", "result[1] == S and result[2] == C"), ("rounds is the decimal value of the rounds field", "result[0] == int(R)")],
    descr="hash == prefix + R + '$' + S + '$' + C with '$'-free fields, R decimal without leading zero",
)
parse_mc3_config = Contract(
    "parse_mc3[config string]", f"{H}::parse_mc3",
    params={"hash": Const(None), "prefix": Str(), "sep": Const("$"), "rounds_base": Const(10), "default_rounds": Const(None), "handler": Obj(fields={"name": "h"}), "R": Str(), "S": Str()},
    setup=lambda it, args: {"hash": SStr(z3.Concat(it.to_z3(args["prefix"]), it.to_z3(args["R"]), z3.StringVal("$"), it.to_z3(args["S"])), "str")},
    requires=[NODOLLAR.format("R"), NODOLLAR.format("S"), DIGITS.format("R")],
    raises={}, split_limit=3,
    ensures=[("salt returned, no checksum", "result[1] == S and result[2] is None"), ("rounds is the decimal value of the rounds field", "result[0] == int(R)")],
)
parse_mc3_zero = Contract(
    "parse_mc3[zero-padded rounds]", f"{H}::parse_mc3",
    params={"hash": Const(None), "prefix": Str(), "sep": Const("$"), "rounds_base": Const(10), "default_rounds": Const(None), "handler": Obj(fields={"name": "h"}), "R": Str(), "S": Str(), "C": Str()},
    setup=lambda it, args: {"hash": SStr(z3.Concat(it.to_z3(args["prefix"]), it.to_z3(args["R"]), z3.StringVal("$"), it.to_z3(args["S"]), z3.StringVal("$"), it.to_z3(args["C"])), "str")},
    requires=[NODOLLAR.format("R"), NODOLLAR.format("S"), NODOLLAR.format("C"), "R.startswith('0') and R != '0'"],
    raises={"ValueError": None}, split_limit=3,
    ensures=[("a zero-padded rounds field is refused", "False")],
)
parse_mc2_hash = Contract(
    "parse_mc2[full hash]", f"{H}::parse_mc2",
    params={"hash": Const(None), "prefix": Str(), "sep": Const("$"), "handler": Obj(fields={"name": "h"}), "S": Str(), "C": Str()},
    setup=lambda it, args: {"hash": SStr(z3.Concat(it.to_z3(args["prefix"]), it.to_z3(args["S"]), z3.StringVal("$"), it.to_z3(args["C"])), "str")},
    requires=[NODOLLAR.format("S"), NODOLLAR.format("C"), "len(C) > 0"],
    raises={}, split_limit=2,
    ensures=[("fields are returned exactly", "result[0] == S and result[1] == C")],
)
parse_mc2_config = Contract(
    "parse_mc2[config string]", f"{H}::parse_mc2",
    params={"hash": Const(None), "prefix": Str(), "sep": Const("$"), "handler": Obj(fields={"name": "h"}), "S": Str()},
    setup=lambda it, args: {"hash": SStr(z3.Concat(it.to_z3(args["prefix"]), it.to_z3(args["S"])), "str")},
    requires=[NODOLLAR.format("S")],
    raises={}, split_limit=2,
    ensures=[("salt returned, no checksum", "result[0] == S and result[1] is None")],
)
render_mc2 = Contract(
    "render_mc2", f"{H}::render_mc2",
    params={"ident": Str(), "salt": Str(), "checksum": Opt(Str()), "sep": Const("$")},
    ensures=[("ident + salt [+ '$' + checksum]", "result == (ident + salt + '$' + checksum if (checksum is not None and len(checksum) > 0) else ident + salt)")],
)
render_mc3 = Contract(
    "render_mc3", f"{H}::render_mc3",
    params={"ident": Str(), "rounds": Opt(Int(lo=0)), "salt": Str(), "checksum": Opt(Str()), "sep": Const("$"), "rounds_base": Const(10)},
    ensures=[("ident + [rounds] + '$' + salt [+ '$' + checksum]",
              "result == ident + ('' if rounds is None else str(rounds)) + '$' + salt + ('$' + checksum if (checksum is not None and len(checksum) > 0) else '')")],
)

PHC = "libpass/inspect/phc/_phc.py"


def _phc_setup(n):
    def setup(it, args):
        from pyvc.contract import Opt as _Opt
        defs = []
        for i in range(n):
            d = SObj(f"definition{i}", is_class=True, fields={"version": _Opt(Int()).make(it, f"def{i}.version"), "index": i})
            defs.append(d)
        matches = [SBool(z3.Bool(f"id_in_def{i}")) for i in range(n)]

        class _Ids:
            pass

        def parse_def(it2, a, k):
            i = a[0].fields["index"]
            ids = SObj(f"ids{i}", fields={"__contains__": SStub(lambda i3, aa, kk, _m=matches[i]: _m, "id in definition.id")})
            return SObj(f"info{i}", fields={"id": ids})

        args["definitions"] = tuple(defs)
        it.run.ghost["defs"] = defs
        out = {f"definition{i}": d for i, d in enumerate(defs)}
        out.update({f"id_in_def{i}": m for i, m in enumerate(matches)})
        out["_parse_phc_def_stub"] = SStub(parse_def, "_parse_phc_def")
        it.genv.vars["_parse_phc_def"] = out["_parse_phc_def_stub"]
        return out

    return setup


def _phc_contract(n):
    chosen = [f"implies(result is definition{i}, id_in_def{i} and ((definition{i}.version is None and version is None) or (definition{i}.version is not None and version is not None and definition{i}.version == version)))" for i in range(n)]
    none = " and ".join(f"not (id_in_def{i} and ((definition{i}.version is None and version is None) or (definition{i}.version is not None and version is not None and definition{i}.version == version)))" for i in range(n))
    return Contract(
        f"phc._choose_definition[{n} definitions]", f"{PHC}::_choose_definition",
        params={"definitions": Const(None), "id": Str(), "version": Opt(Int())},
        setup=_phc_setup(n),
        globals={"Sequence": __import__("pyvc.values", fromlist=["SType"]).SType("tuple")},
        ensures=[(f"a definition is chosen only if its id matches and its version equals the record's version exactly (a version-less record never selects a versioned definition) [{i}]", c) for i, c in enumerate(chosen)]
        + [("None only when no definition matches id and version", f"implies(result is None, {none})")],
        descr="definitions with arbitrary (optional) versions, record version None or int",
    )


from contracts import c07_handlers  # noqa: E402

CONTRACTS = c07_handlers.CONTRACTS + [_phc_contract(1), _phc_contract(2), parse_mc3_hash, parse_mc3_config, parse_mc3_zero, parse_mc2_hash, parse_mc2_config, render_mc2, render_mc3]


def _mc_roundtrip():
    n = z3.Int("n")
    p, s, c = z3.Strings("prefix salt chk")
    R = z3.IntToStr(n)
    h3 = z3.Concat(p, R, z3.StringVal("$"), s, z3.StringVal("$"), c)
    pre = [n >= 0, z3.Not(z3.Contains(s, "$")), z3.Not(z3.Contains(c, "$")), z3.Length(c) > 0]
    digits = z3.InRe(R, z3.Plus(z3.Range("0", "9")))
    return [
        ("str(n) contains no '$'", pre, z3.Not(z3.Contains(R, "$"))),
        ("int(str(n)) == n: parse_mc3(render_mc3(ident, n, salt, chk)) returns n", pre, z3.StrToInt(R) == n),
    ]


LEMMAS = c07_handlers.LEMMAS + [Lemma("mc3-roundtrip", _mc_roundtrip, "render_mc3 output satisfies parse_mc3's precondition and decodes to the same rounds")]
from contracts import misc_quick as _mq  # noqa: E402

CONTRACTS += [_mq.sun_to_string]
from contracts import c12 as _c12  # noqa: E402

# scrypt's $7$ strings render block size / parallelism with the 30-bit hash64 integer codec (shared with C12)
CONTRACTS += [c for c in _c12.CONTRACTS if c.id.startswith(("encode_int30", "decode_int30"))]
BOUNDED = [Bounded("c07", "harness/c07.py", descr="parse/render round trips of every hasher; libpass inspect/PHC", timeout=900)]

MUTANTS = [
    ("phc: a version-less record selects a versioned definition", PHC, "        if id_matches and definition.version == version:", "        if id_matches and version in (None, definition.version):", "refute", "phc"),
    ("parse_mc3 returns the fields swapped", H, "    return rounds, salt, chk or None\n", "    return rounds, chk or None, salt\n", "refute"),
    ("parse_mc3 accepts zero padded rounds", H, "    if rounds.startswith(_UZERO) and rounds != _UZERO:\n        raise exc.ZeroPaddedRoundsError(handler)\n    if rounds:\n        rounds = int(rounds, rounds_base)", "    if rounds:\n        rounds = int(rounds, rounds_base)", "refute"),
    ("render_mc3 forgets the separator before the checksum", H, "        parts = [ident, rounds, sep, salt, sep, checksum]\n", "        parts = [ident, rounds, sep, salt, checksum]\n", "refute"),
    ("render_mc2 renders the checksum first", H, "        parts = [ident, salt, sep, checksum]\n", "        parts = [ident, checksum, sep, salt]\n", "refute"),
    ("parse_mc2 drops the last char of the salt", H, "        salt, chk = parts\n        return salt, chk or None\n", "        salt, chk = parts\n        return salt[:-1], chk or None\n", "refute"),
    ("sha2_crypt.from_string: explicit rounds flagged implicit", "passlib/handlers/sha2_crypt.py", "            rounds = int(rounds)\n            implicit_rounds = False", "            rounds = int(rounds)\n            implicit_rounds = True", "refute", "sha256_crypt.from_string"),
    ("sha2_crypt.from_string: rounds prefix cut one short", "passlib/handlers/sha2_crypt.py", "rounds = parts.pop(0)[7:]", "rounds = parts.pop(0)[6:]", "refute", "sha256_crypt.from_string"),
    ("sha2_crypt.to_string: explicit rounds=5000 rendered as implicit", "passlib/handlers/sha2_crypt.py", "        if self.rounds == 5000 and self.implicit_rounds:", "        if self.rounds == 5000:", "refute", "sha256_crypt.to_string"),
    ("des_crypt.from_string: digest starts one character late", "passlib/handlers/des_crypt.py", "        salt, chk = hash[:2], hash[2:]\n        return cls(salt=salt, checksum=chk or None)\n\n    def to_string(self):\n        return f\"{self.salt}{self.checksum or ''}\"\n\n    def _calc_checksum(self, secret):\n        # check for truncation", "        salt, chk = hash[:2], hash[3:]\n        return cls(salt=salt, checksum=chk or None)\n\n    def to_string(self):\n        return f\"{self.salt}{self.checksum or ''}\"\n\n    def _calc_checksum(self, secret):\n        # check for truncation", "refute", "^des_crypt"),
    ("sha1_crypt.to_string: config strings keep the digest", "passlib/handlers/sha1_crypt.py", "        chk = None if config else self.checksum", "        chk = self.checksum", "refute", "sha1_crypt.to_string"),
    ("sha2_crypt.to_string: harmless switch from format() to concatenation", "passlib/handlers/sha2_crypt.py", '            hash = "{}{}${}".format(self.ident, self.salt, self.checksum or "")', '            hash = self.ident + self.salt + "$" + (self.checksum or "")', "hold", "sha256_crypt.to_string"),
]

# ---- the variant a derived fshp hasher renders is the one it was configured with: using() stores it on the fresh subclass,
#      never on the class it was derived from (frame contract shared with C09) ----
from contracts import c09_frames as _fr07  # noqa: E402

CONTRACTS += [c for c in _fr07.CONTRACTS if c.id.startswith("fshp.using")]
