"""pyvc.concrete -- complete finite checks: the REAL function text (extracted from /repo on every run, decorators
dropped) is compiled into a closed namespace of stubs and executed on every value of a finite input space."""
import ast

from . import extract


def load_function(target, namespace):
    """compile the function named by 'relpath::qualname' with the given globals; returns the python callable"""
    info = extract.find(target)
    import copy

    node = copy.deepcopy(info.node)
    node.decorator_list = []
    src = ast.unparse(node)  # the function's own text, decorators dropped (docstring/comments irrelevant to execution)
    mod = ast.parse(src)
    ns = dict(namespace)
    exec(compile(mod, f"<{target}>", "exec"), ns)  # noqa: S102 - closed namespace, repository code under check
    return ns[node.name], info


def load_class(relpath, clsname, methods, namespace, bases=()):
    """compile ``class <clsname>`` consisting of the named methods (real text, decorators kept and resolved in the
    given namespace; private names are mangled as in the original because the class keeps its name)"""
    import copy

    cls = extract.find_class(relpath, clsname)
    body = []
    for st in cls.body:
        if isinstance(st, ast.FunctionDef) and st.name in methods:
            body.append(copy.deepcopy(st))
        elif isinstance(st, (ast.Assign, ast.AnnAssign)) and st.value is not None:
            # class-level constants (literal values only) travel with the methods
            try:
                ast.literal_eval(st.value)
            except (ValueError, SyntaxError, TypeError):
                continue
            body.append(copy.deepcopy(st))
    missing = set(methods) - {b.name for b in body if isinstance(b, ast.FunctionDef)}
    if missing:
        raise extract.ExtractError(f"{relpath}::{clsname}: methods not found: {sorted(missing)}")
    node = ast.ClassDef(name=clsname, bases=[ast.Name(id=b, ctx=ast.Load()) for b in bases], keywords=[], body=body, decorator_list=[])
    if hasattr(node, "type_params"):
        node.type_params = []
    mod = ast.Module(body=[node], type_ignores=[])
    ast.fix_missing_locations(mod)
    ns = dict(namespace)
    exec(compile(mod, f"<{relpath}::{clsname}>", "exec"), ns)  # noqa: S102 - closed namespace, repository code under check
    return ns[clsname]
