"""Independent implementations of the iterated-digest crypt formats, written from their published
descriptions: PHK md5-crypt (FreeBSD crypt-md5.c) and Apache apr1, Drepper's SHA-crypt.txt, NetBSD
crypt-sha1.c, phpass (Openwall PasswordHash.php), Sun MD5 (OpenSolaris crypt_sunmd5.c).
Only hashlib/hmac from the stdlib; shares nothing with passlib."""
import hashlib
import hmac

H64 = "./0123456789ABCDEFGHIJKLMNOPQRSTUVWXYZabcdefghijklmnopqrstuvwxyz"


def to64(v, n):
    """least significant 6 bits first (crypt's to64)"""
    out = ""
    for _ in range(n):
        out += H64[v & 63]
        v >>= 6
    return out


# ---------------------------------------------------------------------------------------------
def _md5_crypt(pw, salt, magic):
    salt_b = salt.encode("ascii")
    magic_b = magic.encode("ascii")
    ctx = pw + magic_b + salt_b
    final = hashlib.md5(pw + salt_b + pw).digest()
    pl = len(pw)
    while pl > 0:
        ctx += final[: min(16, pl)]
        pl -= 16
    i = len(pw)
    while i:
        if i & 1:
            ctx += b"\0"
        else:
            ctx += pw[:1]
        i >>= 1
    final = hashlib.md5(ctx).digest()
    for i in range(1000):
        c = b""
        if i & 1:
            c += pw
        else:
            c += final
        if i % 3:
            c += salt_b
        if i % 7:
            c += pw
        if i & 1:
            c += final
        else:
            c += pw
        final = hashlib.md5(c).digest()
    return magic + salt + "$" + _md5_tail(final)


def _md5_tail(final):
    out = ""
    for a, b, c in ((0, 6, 12), (1, 7, 13), (2, 8, 14), (3, 9, 15), (4, 10, 5)):
        out += to64((final[a] << 16) | (final[b] << 8) | final[c], 4)
    out += to64(final[11], 2)
    return out


def md5_crypt(pw, salt):
    return _md5_crypt(pw, salt, "$1$")


def apr_md5_crypt(pw, salt):
    return _md5_crypt(pw, salt, "$apr1$")


# ---------------------------------------------------------------------------------------------
def _sha_crypt(pw, salt, rounds, explicit, alg):
    """Drepper, "Unix crypt using SHA-256 and SHA-512", steps 1-22"""
    h = getattr(hashlib, alg)
    size = h().digest_size
    salt_b = salt.encode("ascii")
    # 4-8
    b = h(pw + salt_b + pw).digest()
    # 1-3, 9-10
    a = pw + salt_b
    n = len(pw)
    while n > size:
        a += b
        n -= size
    a += b[:n]
    # 11
    n = len(pw)
    while n > 0:
        if n & 1:
            a += b
        else:
            a += pw
        n >>= 1
    a = h(a).digest()
    # 13-15
    dp = b""
    for _ in range(len(pw)):
        dp += pw
    dp = h(dp).digest()
    # 16
    p = b""
    n = len(pw)
    while n >= size:
        p += dp
        n -= size
    p += dp[:n]
    # 17-19
    ds = b""
    for _ in range(16 + a[0]):
        ds += salt_b
    ds = h(ds).digest()
    # 20
    s = b""
    n = len(salt_b)
    while n >= size:
        s += ds
        n -= size
    s += ds[:n]
    # 21
    c = a
    for i in range(rounds):
        x = b""
        if i & 1:
            x += p
        else:
            x += c
        if i % 3:
            x += s
        if i % 7:
            x += p
        if i & 1:
            x += c
        else:
            x += p
        c = h(x).digest()
    # 22
    if alg == "sha256":
        order = [(0, 10, 20), (21, 1, 11), (12, 22, 2), (3, 13, 23), (24, 4, 14), (15, 25, 5), (6, 16, 26), (27, 7, 17), (18, 28, 8), (9, 19, 29)]
        out = "".join(to64((c[i] << 16) | (c[j] << 8) | c[k], 4) for i, j, k in order)
        out += to64((c[31] << 8) | c[30], 3)
        ident = "$5$"
    else:
        order = [(0, 21, 42), (22, 43, 1), (44, 2, 23), (3, 24, 45), (25, 46, 4), (47, 5, 26), (6, 27, 48), (28, 49, 7), (50, 8, 29), (9, 30, 51), (31, 52, 10),
                 (53, 11, 32), (12, 33, 54), (34, 55, 13), (56, 14, 35), (15, 36, 57), (37, 58, 16), (59, 17, 38), (18, 39, 60), (40, 61, 19), (62, 20, 41)]
        out = "".join(to64((c[i] << 16) | (c[j] << 8) | c[k], 4) for i, j, k in order)
        out += to64(c[63], 2)
        ident = "$6$"
    rs = "rounds=%d$" % rounds if explicit else ""
    return ident + rs + salt + "$" + out


def sha256_crypt(pw, salt, rounds=5000, explicit=None):
    return _sha_crypt(pw, salt, rounds, rounds != 5000 if explicit is None else explicit, "sha256")


def sha512_crypt(pw, salt, rounds=5000, explicit=None):
    return _sha_crypt(pw, salt, rounds, rounds != 5000 if explicit is None else explicit, "sha512")


# ---------------------------------------------------------------------------------------------
def sha1_crypt(pw, salt, rounds):
    """NetBSD crypt-sha1.c: HMAC-SHA1 keyed by the password, iterated"""
    d = hmac.new(pw, ("%s$sha1$%u" % (salt, rounds)).encode("ascii"), hashlib.sha1).digest()
    for _ in range(1, rounds):
        d = hmac.new(pw, d, hashlib.sha1).digest()
    out = ""
    for i in range(0, 18, 3):
        out += to64((d[i] << 16) | (d[i + 1] << 8) | d[i + 2], 4)
    out += to64((d[18] << 16) | (d[19] << 8) | d[0], 4)
    return "$sha1$%u$%s$%s" % (rounds, salt, out)


# ---------------------------------------------------------------------------------------------
def _phpass_encode64(data, count):
    out = ""
    i = 0
    while True:
        value = data[i]
        i += 1
        out += H64[value & 0x3F]
        if i < count:
            value |= data[i] << 8
        out += H64[(value >> 6) & 0x3F]
        if i >= count:
            break
        i += 1
        if i < count:
            value |= data[i] << 16
        out += H64[(value >> 12) & 0x3F]
        if i >= count:
            break
        i += 1
        out += H64[(value >> 18) & 0x3F]
        if i >= count:
            break
    return out


def phpass(pw, salt, log_rounds, ident="$P$"):
    """Openwall PasswordHash.php crypt_private()"""
    salt_b = salt.encode("ascii")
    h = hashlib.md5(salt_b + pw).digest()
    for _ in range(1 << log_rounds):
        h = hashlib.md5(h + pw).digest()
    return ident + H64[log_rounds] + salt + _phpass_encode64(h, 16)


# ---------------------------------------------------------------------------------------------
# text copied from the constant in the host's libcrypt (crypt_sunmd5), not from passlib
HAMLET = (
    b"To be, or not to be,--that is the question:--\n"
    b"Whether 'tis nobler in the mind to suffer\n"
    b"The slings and arrows of outrageous fortune\n"
    b"Or to take arms against a sea of troubles,\n"
    b"And by opposing end them?--To die,--to sleep,--\n"
    b"No more; and by a sleep to say we end\n"
    b"The heartache, and the thousand natural shocks\n"
    b"That flesh is heir to,--'tis a consummation\n"
    b"Devoutly to be wish'd. To die,--to sleep;--\n"
    b"To sleep! perchance to dream:--ay, there's the rub;\n"
    b"For in that sleep of death what dreams may come,\n"
    b"When we have shuffled off this mortal coil,\n"
    b"Must give us pause: there's the respect\n"
    b"That makes calamity of so long life;\n"
    b"For who would bear the whips and scorns of time,\n"
    b"The oppressor's wrong, the proud man's contumely,\n"
    b"The pangs of despis'd love, the law's delay,\n"
    b"The insolence of office, and the spurns\n"
    b"That patient merit of the unworthy takes,\n"
    b"When he himself might his quietus make\n"
    b"With a bare bodkin? who would these fardels bear,\n"
    b"To grunt and sweat under a weary life,\n"
    b"But that the dread of something after death,--\n"
    b"The undiscover'd country, from whose bourn\n"
    b"No traveller returns,--puzzles the will,\n"
    b"And makes us rather bear those ills we have\n"
    b"Than fly to others that we know not of?\n"
    b"Thus conscience does make cowards of us all;\n"
    b"And thus the native hue of resolution\n"
    b"Is sicklied o'er with the pale cast of thought;\n"
    b"And enterprises of great pith and moment,\n"
    b"With this regard, their currents turn awry,\n"
    b"And lose the name of action.--Soft you now!\n"
    b"The fair Ophelia!--Nymph, in thy orisons\n"
    b"Be all my sins remember'd.\n\x00"
)


def _md5bit(digest, bit_num):
    return (digest[(bit_num // 8) % 16] >> (bit_num % 8)) & 1


def sun_md5_raw(pw, config, rounds):
    """config: the salt string that is digested after the password, e.g. b'$md5,rounds=5$abcd$'"""
    digest = hashlib.md5(pw + config).digest()
    for rnd in range(4096 + rounds):
        shift_4 = [0] * 16
        shift_7 = [0] * 16
        for i in range(16):
            j = (i + 3) & 0xF
            shift_4[i] = digest[j] % 5
            shift_7[i] = (digest[j] >> (digest[i] & 7)) & 1
        shift_a = _md5bit(digest, rnd)
        shift_b = _md5bit(digest, rnd + 64)
        indirect_4 = [(digest[i] >> shift_4[i]) & 0x0F for i in range(16)]
        indirect_7 = [(digest[indirect_4[i]] >> shift_7[i]) & 0x7F for i in range(16)]
        indirect_a = indirect_b = 0
        for i in range(8):
            indirect_a |= _md5bit(digest, indirect_7[i]) << i
            indirect_b |= _md5bit(digest, indirect_7[i + 8]) << i
        indirect_a = (indirect_a >> shift_a) & 0x7F
        indirect_b = (indirect_b >> shift_b) & 0x7F
        bit_a = _md5bit(digest, indirect_a)
        bit_b = _md5bit(digest, indirect_b)
        data = digest
        if bit_a ^ bit_b:
            data += HAMLET
        data += b"%d" % rnd
        digest = hashlib.md5(data).digest()
    return _md5_tail(digest)


def sun_md5_crypt(pw, salt, rounds, bare_salt=False):
    """'$md5$salt$' / '$md5,rounds=N$salt$' configuration; the trailing '$' is part of the digested
    configuration unless bare_salt (then the hash is written with a single '$' before the checksum)"""
    cfg = "$md5$" if rounds == 0 else "$md5,rounds=%d$" % rounds
    cfg += salt
    if not bare_salt:
        cfg += "$"
    return cfg + "$" + sun_md5_raw(pw, cfg.encode("ascii"), rounds)
