NOTES = "Contract-based deductive verification of the real code (see DESIGN.md). Exit codes: 0 held, 1 violation (+VIOLATION line), 3 checker error."
NOT_APPLICABLE = {
    "C19": "quantifies over thread schedules; function-modular contracts over sequential semantics cannot express or decide interleavings, and no installed deductive tool for Python adds them (DESIGN.md section 6, C19)",
}
CHECKS = {
    "C06": dict(
        category="proof",
        technique="contracts + loop invariants on getrandbytes/getrandstr discharged by z3/cvc5 (pyvc); bijection lemma; bounded exhaustive stand-in",
        text="getrandbytes/getrandstr are proved, for every count and every value of the single rng draw, to return exactly the base-256/base-L digits of that draw (loop invariants over the real source); the digit step map is proved bijective, so a uniform draw yields a uniform output of the declared size and alphabet. Salt/key generators are checked to delegate to these helpers.",
        note="trusted: pyvc VC generator, z3/cvc5, rng range contracts (random.Random), induction over n of the digits bijection argued on paper (step mechanised); float-based entropy->length in passlib.pwd is bounded only",
    ),
    "C11": dict(
        category="proof",
        technique="ghost lock-step contracts on MD4 compression and Salsa20/8 (BV64 + no-overflow obligations), DES key conversion, scrypt.validate, discharged by z3; bounded stand-in vs independent references for DES/bcrypt/ROMix/HMAC/PBKDF/SASLprep",
        text="MD4's compression function and Salsa20/8 are proved equal to RFC 1320 / RFC 7914 for every state and block by per-step cut points over the real source; DES 7<->8 byte key conversion, scrypt parameter validation are proved for all integers. The table-driven DES rounds, the bcrypt core, ROMix, HMAC/PBKDF1/2 and SASLprep are compared with independent references on stated bounds (never counted as proved).",
        note="trusted: pyvc, z3/cvc5, struct unpack model, RFC transcriptions in /verif/specs; digests from hashlib; bounded parts are bounded",
    ),
    "C12": dict(
        category="proof",
        technique="contracts on the real chunk codecs and integer codecs executed symbolically per shape, round-trip lemmas over the 24-bit group definition, z3/cvc5; bounded exhaustive stand-in",
        text="Every chunk encoder/decoder of Base64Engine (and libpass' copies) is proved equal to the 24-bit group definition for all byte values on every shape chunks<=2 x tail, integer codecs (12/24/30/64 bit, both bit orders) for all integers including refusals, and decode.encode = id as lemmas; the real engines are additionally run on every 1-/2-byte group and compared with stdlib base64.",
        note="trusted: pyvc, z3/cvc5, stream-map meta-rule (per-iteration independence) for chunk counts > 2, abstract charmap with dec(enc(i)) = i; stdlib wrappers (b64s/ab64/b32) bounded only",
    ),
    "C13": dict(
        category="proof",
        technique="contracts on TOTP._generate / generate / normalize_token discharged by z3/cvc5 (dynamic truncation, decimal rendering abstraction); bounded stand-in vs RFC reference",
        text="TOTP._generate is proved to return RFC 4226's dynamic truncation of the HMAC value modulo 10^digits, zero padded to exactly `digits` characters, for every counter, every digest of 20..64 bytes and digits 6..10; generate() uses counter floor(time/period) and reports the validity interval. Key text forms, float/datetime times and HMAC itself are covered by the bounded stand-in / C11.",
        note="trusted: pyvc incl. the decimal-rendering meta-rule, z3/cvc5, struct model, HMAC abstract",
    ),
    "C14": dict(
        category="proof",
        technique="contracts on TOTP.match/_find_match with loop invariant (earliest match) and an uninterpreted counter->token map, discharged by z3; exhaustive small-domain stand-in",
        text="For all integer time/skew/window/period/last_counter and any token function, match() is proved to search exactly the stated counter range, return the earliest matching counter later than the last used one, raise UsedTokenError/InvalidTokenError/MalformedTokenError exactly in the stated cases and fill TotpMatch correctly; accepted counters strictly increase when fed back.",
        note="trusted: pyvc, z3 (quantifier instantiation for the 'no earlier match' invariant), consteq == equality; induction over the history argued from the proved two-call step",
    ),
}
