#!/bin/bash
# usage: verify_seeded_tests.sh <patch file> <tag>   -> prints "<tag> stable_pass=... missing=N"
patch="$1"; tag="$2"; wt=/tmp/sv_$tag
git -C /repo worktree add -q --detach $wt HEAD 2>/dev/null || exit 2
( cd $wt && git apply "$patch" ) || { echo "$tag PATCH-FAILED"; git -C /repo worktree remove --force $wt; exit 1; }
out=$(cd /verif && python3 tools/baseline_check.py $wt 2>&1 | head -3 | tr '\n' ' ')
echo "$tag $out"
git -C /repo worktree remove --force $wt
