"""Bounded stand-in for C01: a hash verifies exactly the password it was made from.

Every registered hasher (passlib.registry.list_crypt_handlers(), wrappers included) and the libpass.hashers
classes are driven over a password grid x settings grid x context keywords.  Per case: hash() returns an ASCII
str that the hasher identifies, verify() is True for the password as text and as the equivalent encoded bytes,
and False for >= 20 near-miss passwords that lie outside the format's documented equivalences.

The equivalences are tabulated below (EQUIV) from the format documentation in /repo/docs/lib/passlib.hash.*.rst
and the class docstrings, never from the code under test.  A password is only used as a negative witness when its
canonical form differs from the canonical form of the hashed password under *every* reading of the documented
equivalence (the canonical forms are sets; two passwords are treated as equivalent when the sets intersect).
Near misses never contain NUL bytes (several formats NUL-pad the password, HMAC NUL-pads its key).

Refusals: hash() raising passlib.exc.PasswordValueError (PasswordSizeError, PasswordTruncateError and
NullPasswordError derive from it) or a UnicodeError for a password that is not text in the hasher's encoding is
"inadmissible password"; counted in host["inadmissible"], never a failure.
"""
import json
import os
import stringprep
import sys
import time
import unicodedata
from itertools import zip_longest

from common import Group, main

NEAR_MIN = 20  # near misses evaluated per case (lower bound; the generator aims higher)

# =====================================================================================================
# documented equivalences
# =====================================================================================================


def _b(x, enc="utf-8"):
    return x.encode(enc) if isinstance(x, str) else x


def _t(x, enc="utf-8"):
    """text reading of a password, None if the bytes are not text in that encoding"""
    if isinstance(x, str):
        return x
    try:
        return x.decode(enc)
    except UnicodeDecodeError:
        return None


def _mask7(b):
    return bytes(c & 0x7F for c in b)


def _pad(b, n):
    return b + b"\0" * (n - len(b))


def _blocks8(b):
    return _pad(b, max(8, -(-len(b) // 8) * 8))


def _fold(t):
    """every reading of 'case-insensitive' for text"""
    return {t.upper(), t.lower(), t.casefold(), t.casefold().upper(), t.upper().lower()}


def saslprep(s):
    """RFC 4013 (stored-string profile), written from the RFC with the stdlib stringprep tables"""
    s = "".join(" " if stringprep.in_table_c12(c) else c for c in s if not stringprep.in_table_b1(c))
    s = unicodedata.normalize("NFKC", s)
    if not s:
        return s
    for c in s:
        if (
            stringprep.in_table_c12(c)
            or stringprep.in_table_c21_c22(c)
            or stringprep.in_table_c3(c)
            or stringprep.in_table_c4(c)
            or stringprep.in_table_c5(c)
            or stringprep.in_table_c6(c)
            or stringprep.in_table_c7(c)
            or stringprep.in_table_c8(c)
            or stringprep.in_table_c9(c)
            or stringprep.in_table_a1(c)
        ):
            raise ValueError("prohibited")
    if any(stringprep.in_table_d1(c) for c in s):
        if any(stringprep.in_table_d2(c) for c in s) or not (stringprep.in_table_d1(s[0]) and stringprep.in_table_d1(s[-1])):
            raise ValueError("bidi")
    return s


def eq_exact(x, cfg):
    enc = cfg.get("encoding") or cfg.get("default_encoding") or "utf-8"
    try:
        return {_b(x, enc)}
    except UnicodeEncodeError:
        return {("unencodable", x)}


def eq_text(x, cfg):
    """formats that decode bytes as UTF-8 and work on the text (nthash, msdcc, mssql2005, ...)"""
    t = _t(x)
    return {("invalid", x)} if t is None else {t}


def eq_des8(x, cfg):  # des_crypt.rst: lower 7 bits of the first 8 bytes, NUL padded, rest ignored
    return {_pad(_mask7(_b(x)[:8]), 8)}


def eq_des_blocks(x, cfg):  # bsdi_crypt.rst / bigcrypt.rst: 7 bits of every byte, NUL padded to a multiple of 8
    return {_blocks8(_mask7(_b(x)))}


def eq_crypt16(x, cfg):  # crypt16.rst: truncated / NUL padded to 16 bytes, 7 bits each
    return {_pad(_mask7(_b(x)[:16]), 16)}


def eq_bcrypt(x, cfg):  # bcrypt.rst: only the first 72 bytes are hashed; $2$ cycles the key without terminator
    b = _b(x)
    if cfg.get("ident") in ("2", "$2$") and b:
        b = (b * (72 // len(b) + 1))[:72]
    return {b[:72]}


def eq_bcrypt_libpass(x, cfg):
    return {_b(x)[:72]}


def eq_lmhash(x, cfg):  # lmhash.rst: upper-cased, OEM code page, truncated / NUL padded to 14 bytes
    enc = cfg.get("encoding") or "cp437"
    forms = set()
    raw = []
    if isinstance(x, str):
        for t in (x.upper(), x):
            try:
                raw.append(t.encode(enc))
            except UnicodeEncodeError:
                pass
    else:
        raw.append(x)
        t = _t(x, enc)
        if t is not None:
            try:
                raw.append(t.upper().encode(enc))
            except UnicodeEncodeError:
                pass
    for r in raw:
        forms.add(_pad(r.upper()[:14], 14))
    return forms or {("unencodable", x)}


def eq_fold_text(x, cfg):  # oracle10.rst step 2, mssql2000.rst: case-insensitive
    t = _t(x)
    return {("invalid", x)} if t is None else _fold(t)


def eq_mysql323(x, cfg):  # mysql323.rst: all whitespace (space, tab) ignored
    return {_b(x).replace(b" ", b"").replace(b"\t", b"")}


def eq_scram(x, cfg):  # scram.rst: SASLprep
    t = _t(x)
    if t is None:
        return {("invalid", x)}
    try:
        return {saslprep(t)}
    except ValueError:
        return {("prohibited", t)}


def _cisco(x, cfg, asa):  # cisco_pix.rst steps 1-3
    b = _b(x)
    limit = 32 if asa else 16
    if len(b) > limit:
        return {("oversize", b)}  # "will ... simply not verify"
    user = _b(cfg.get("user") or "")
    if user and (not asa or len(b) < 28):
        b += (user * 4)[:4]
    size = 32 if (asa and len(b) > 16) else 16
    return {_pad(b[:size], size)}


def eq_cisco_pix(x, cfg):
    return _cisco(x, cfg, False)


def eq_cisco_asa(x, cfg):
    return _cisco(x, cfg, True)


#: base format name -> (canonical form, number of leading bytes that can matter or None)
EQUIV = {
    "des_crypt": (eq_des8, 8),
    "django_des_crypt": (eq_des8, 8),
    "bsdi_crypt": (eq_des_blocks, None),
    "bigcrypt": (eq_des_blocks, None),
    "crypt16": (eq_crypt16, 16),
    "bcrypt": (eq_bcrypt, 72),
    "lmhash": (eq_lmhash, 14),
    "oracle10": (eq_fold_text, None),
    "mssql2000": (eq_fold_text, None),
    "mysql323": (eq_mysql323, None),
    "scram": (eq_scram, None),
    "cisco_pix": (eq_cisco_pix, 16),
    "cisco_asa": (eq_cisco_asa, 32),
    # text formats: bytes are read as UTF-8
    "nthash": (eq_text, None),
    "msdcc": (eq_text, None),
    "msdcc2": (eq_text, None),
    "mssql2005": (eq_text, None),
}
#: formats whose "hash" is the password itself: the result is ASCII only when the password is
PLAINTEXT = {"plaintext", "ldap_plaintext", "roundup_plaintext"}
DISABLED = {"unix_disabled", "django_disabled"}
#: pure-Python digests costing >= 10 ms per call even at minimum cost (or per KiB of password).  Quick tier only:
#: one password per non-base setting, SLOW_NEAR near misses for passwords > 1000 bytes, reduced base grid for
#: sun_md5_crypt (4096 MD5 iterations in Python per call whatever the rounds value).
SLOW = {"sun_md5_crypt", "bigcrypt", "oracle10", "libpass.SHA256Hasher", "libpass.SHA512Hasher"}
SLOW_NEAR = 6

# =====================================================================================================
# passwords and near misses
# =====================================================================================================
ALNUM = "abcdefghijklmnopqrstuvwxyzABCDEFGHIJKLMNOPQRSTUVWXYZ0123456789"


def ascii_pw(rng, n):
    return "".join(rng.choice(ALNUM) for _ in range(n))


def password_grid(tier, rng, trunc):
    grid = [
        ("empty", ""),
        ("1byte", "a"),
        ("ascii", "Tr0ub4dor&3 xY"),
        ("utf8-2", "café ñoßx"),
        ("utf8-3", "p€ss中文w"),
        ("utf8-4", "k\U0001f600y\U00010348z"),
        ("nonutf8", b"\xffp\xfe\x80w\xc3d\xe9"),
    ]
    if trunc:
        base = ascii_pw(rng, trunc + 1)
        grid += [(f"T-1={trunc - 1}", base[: trunc - 1]), (f"T={trunc}", base[:trunc]), (f"T+1={trunc + 1}", base)]
    grid += [("len255", ascii_pw(rng, 255)), ("len4096", ascii_pw(rng, 4096))]
    if tier != "quick":
        for n in (2, 7, 8, 9, 15, 17, 31, 33, 55, 56, 63, 64, 65, 71, 73, 127, 129, 1000, 4095):
            grid.append((f"rand{n}", ascii_pw(rng, n)))
        for n in (3, 5, 12, 40):
            grid.append((f"uni{n}", "".join(rng.choice("aéßЖ€中\U0001f600Zq ") for _ in range(n))))
            grid.append((f"bin{n}", bytes(rng.randrange(1, 256) for _ in range(n))))
    return grid


#: near-miss category -> witness class used in failure keys
CAT_CLASS = {"prefix": "length", "extend": "length", "prepend": "length", "delete": "length", "insert": "length", "case": "case", "unrelated": "unrelated"}


def near_misses(pw_bytes, sig, rng):
    """candidate byte strings near pw_bytes, category-interleaved; (category, bytes)"""
    b = pw_bytes
    n = len(b)
    lim = min(n, sig) if sig else n
    cats = {}

    def add(cat, v):
        cats.setdefault(cat, []).append(v)

    pos = []
    if lim:
        pos = [0, lim - 1, lim // 2, min(1, lim - 1), max(lim - 2, 0)]
        pos += [rng.randrange(lim) for _ in range(4)]
        pos = list(dict.fromkeys(pos))
    for i in pos:
        for mask in (0x01, 0x20, 0x80, 0x02, 0x10):
            add(f"flip{mask:02x}", b[:i] + bytes([b[i] ^ mask]) + b[i + 1 :])
        add("replace", b[:i] + (b"#" if b[i] != 0x23 else b"%") + b[i + 1 :])
        add("delete", b[:i] + b[i + 1 :])
        add("insert", b[:i] + b"q" + b[i:])
        if i + 1 < n and b[i] != b[i + 1]:
            add("swap", b[:i] + bytes([b[i + 1], b[i]]) + b[i + 2 :])
    for k in (lim - 1, lim - 2, lim // 2, 1, 0, lim - 3):
        if 0 <= k < n:
            add("prefix", b[:k])
    for ext in (b"x", b"X", b"0", b".", b"!", b"a", b" ", b"\t", b"\xc3\xa9", b"zz"):
        add("extend", b + ext)
        add("prepend", ext + b)
    # control characters other than the documented blanks: line breaks, vertical tab, form feed, unit separator
    for ctl in (b"\n", b"\r", b"\x0b", b"\x0c", b"\x1f", b"\x7f"):
        add("control", b + ctl)
        add("control", ctl + b)
        if n >= 2:
            add("control", b[: n // 2] + ctl + b[n // 2 :])
    if n:
        add("extend", b + b[-1:])
        add("extend", b + b)
    for v in (b.swapcase(), b.upper(), b.lower(), b[:1].swapcase() + b[1:], b[:-1] + b[-1:].swapcase(), b.title()):
        add("case", v)
    t = _t(b)
    if t is not None:
        for v in (t.swapcase(), t.upper(), t.lower()):
            add("case", v.encode("utf-8"))
    for v in (b"password", b"a", b"A", b"b", b"0", b"aa", b"ab", b"x", b"Password1", b"\xc3\xa9", b"\xe2\x82\xac", b"\xff", b"~", b"-", b"_", b"1", b"2", b"3", b"zz", b"yes", b"no", b"q1", b"Zq", b"7&", b"letmein"):
        add("unrelated", v)
    out = []
    for row in zip_longest(*cats.values()):
        for cat, v in zip(cats.keys(), row):
            if v is not None:
                out.append((cat, v))
    return out


# =====================================================================================================
# settings / context grids
# =====================================================================================================


def base_of(h):
    import passlib.utils.handlers as uh

    return h.wrapped if isinstance(h, uh.PrefixWrapper) else h


def cheap_rounds(base):
    return base.min_rounds


def config_grid(h):
    """(label, using-kwds, is_default_cost) list; first entry is the cheap base configuration"""
    base = base_of(h)
    kw = {}
    has_rounds = "rounds" in h.setting_kwds
    if has_rounds:
        kw["rounds"] = cheap_rounds(base)
    out = [("min-cost", dict(kw), False)]
    if has_rounds:
        out.append(("min-cost+1", dict(kw, rounds=kw["rounds"] + 1), False))
        out.append(("default-cost", {}, True))
    if "salt_size" in h.setting_kwds:
        lo = base.min_salt_size
        hi = base.max_salt_size if base.max_salt_size is not None else 64
        for s in sorted({lo, hi}):
            out.append((f"salt_size={s}", dict(kw, salt_size=s), False))
    if "ident" in h.setting_kwds:
        for ident in getattr(base, "ident_values", None) or ():
            if ident == "$2x$":
                continue  # bcrypt.rst: "recognizes (but does not currently support generating or verifying)"
            out.append((f"ident={ident}", dict(kw, ident=ident), False))
    name = base.name
    if name == "fshp":
        out += [(f"variant={v}", dict(kw, variant=v), False) for v in (0, 1, 2, 3, "sha256")]
    if name == "scram":
        out += [(f"algs={a}", dict(kw, algs=a), False) for a in ("sha-1", "sha-1,sha-256,sha-512", "sha-1,md5", "sha-1,sha-384")]
    if name == "sun_md5_crypt":
        out += [("rounds=1", {"rounds": 1}, False)]
    if name in ("sha256_crypt", "sha512_crypt"):
        out += [("rounds=5000", {"rounds": 5000}, False)]  # rendered without a rounds field
    if name == "scrypt":
        out += [("block_size=1", dict(kw, block_size=1), False), ("parallelism=2", dict(kw, parallelism=2), False), ("rounds=4,$7$", {"rounds": 4, "ident": "$7$"}, False)]
    if name == "bcrypt_sha256":
        out += [("version=1", dict(kw, version=1), False), ("version=1,2a", dict(kw, version=1, ident="2a"), False), ("version=2", dict(kw, version=2), False)]
    if name == "unix_disabled":
        out += [(f"marker={m}", {"marker": m}, False) for m in ("*", "!", "*LK*", "!!")]
    if name == "cisco_type7":
        out += [(f"salt={s}", {"salt": s}, False) for s in (0, 1, 7, 15)]
    if name in ("bcrypt", "des_crypt", "crypt16", "django_des_crypt", "lmhash") and "truncate_error" in h.setting_kwds:
        out.append(("truncate_error", dict(kw, truncate_error=True), False))
    if name == "argon2":
        out += [(f"type={t}", dict(kw, type=t), False) for t in ("i", "d", "id")]
    return out


def context_grid(h):
    """list of context-kwd dicts; first is the base"""
    ck = h.context_kwds
    base = {}
    if "user" in ck:
        base["user"] = "admin"
    if "realm" in ck:
        base["realm"] = "realm"
    out = [base]
    if "user" in ck:
        for u in ("usr", "Administrator", "ñandú", "a"):
            out.append(dict(base, user=u))
        if h.name in ("cisco_pix", "cisco_asa"):
            out.append(dict(base, user=""))  # the "enable" password
    if "realm" in ck:
        out.append(dict(base, realm="My Realm é"))
    if "encoding" in ck:
        encs = ("utf-8", "latin-1", "cp850") if h.name == "lmhash" else ("latin-1",)
        for e in encs:
            out.append(dict(base, encoding=e))
    return out


# =====================================================================================================
# the per-case evaluation
# =====================================================================================================


class Stats:
    def __init__(self):
        self.inadmissible = {}
        self.min_near = None
        self.near_total = 0
        self.bad_settings = []
        self.seconds = {}  # hasher -> wall seconds
        self.group_seconds = {}

    def refuse(self, name, err):
        k = f"{name}:{type(err).__name__}"
        self.inadmissible[k] = self.inadmissible.get(k, 0) + 1


TEXT_DEFINED = {"nthash", "bsd_nthash", "msdcc", "msdcc2", "mssql2000", "mssql2005", "oracle10", "lmhash", "scram", "htdigest",
                "plaintext", "ldap_plaintext", "roundup_plaintext"}


def is_refusal(err, pw, enc, name=""):
    """documented 'inadmissible password' outcome of hash()/verify()"""
    from passlib import exc

    if isinstance(err, exc.PasswordValueError):
        return True
    if isinstance(err, UnicodeError):
        # only when the password really is not text in the hasher's encoding(s)
        if isinstance(pw, bytes):
            # bytes that are not text: only the formats DEFINED over text may refuse them (UTF-16 transcoding: nthash,
            # msdcc*, mssql*, oracle10; code pages: lmhash; SASLprep: scram; stored text: plaintext family; htdigest's
            # user:realm:password line).  Every byte-oriented format must hash them (des/md5/sha-crypt fall back to
            # their built-in code when crypt(3) cannot take the bytes).
            if name not in TEXT_DEFINED:
                return False
            return _t(pw, "utf-8") is None or _t(pw, enc) is None
        # lmhash upper-cases the text before encoding it (lmhash.rst, "Upper Case Conversion")
        return not (_encodable(pw, enc) and _encodable(pw.upper(), enc))
    if name == "scram" and type(err) is ValueError:
        # scram.rst / passlib.utils.saslprep: ValueError for text that SASLprep prohibits (RFC 4013 oracle above)
        t = _t(pw)
        if t is not None:
            try:
                saslprep(t)
            except ValueError:
                return True
    return False


def run_case(g, st, name, *a, **k):
    t0 = time.time()
    try:
        return _run_case(g, st, name, *a, **k)
    finally:
        dt = time.time() - t0
        st.seconds[name] = st.seconds.get(name, 0.0) + dt
        st.group_seconds[g.name] = st.group_seconds.get(g.name, 0.0) + dt


def _run_case(g, st, name, hasher, cfg, label, pwname, pw, rng, want_near, verify, hash_, identify, canon, sig):
    """one (hasher, settings, context, password) case.  verify(secret, hash) / hash_(secret) / identify(hash)"""
    enc = cfg.get("encoding") or cfg.get("default_encoding") or "utf-8"
    wit = {"hasher": name, "settings": label, "context": {k: cfg[k] for k in ("user", "realm", "encoding") if k in cfg}, "password": pw if isinstance(pw, str) else {"bytes_hex": pw.hex()}}
    if len(repr(pw)) > 200:
        wit["password"] = {"name": pwname, "seed_note": "regenerate with the same --seed", "head": repr(pw[:40])}
    kind = "bytes" if isinstance(pw, bytes) else ("ascii" if pw.isascii() else "nonascii")
    try:
        hs = hash_(pw)
    except Exception as err:  # noqa: BLE001
        if is_refusal(err, pw, enc, name):
            st.refuse(name, err)
            g.case((name, label, repr(sorted(wit["context"].items())), pwname, "refused"), nontrivial=False)
            return None
        g.case((name, label, pwname, "hash-raises"))
        g.fail(f"hash-raises:{name}:{type(err).__name__}", f"hash() raised {type(err).__name__}: {str(err)[:100]}", wit)
        return None
    g.case((name, label, repr(sorted(wit["context"].items())), pwname))
    wit["hash"] = hs if isinstance(hs, str) and len(hs) < 200 else repr(hs)[:200]
    if not g.check(isinstance(hs, str), f"type:{name}", "hash() did not return str", wit):
        return None
    if name in PLAINTEXT and kind != "ascii":
        pass  # the stored form is the password itself (plaintext.rst); ASCII only for ASCII passwords
    else:
        g.check(hs.isascii(), f"ascii:{name}", "hash() returned a non-ASCII string", wit)
    try:
        ok = identify(hs)
    except Exception as err:  # noqa: BLE001
        ok = f"{type(err).__name__}: {err}"
    empty = ":empty" if pw in ("", b"") and name in PLAINTEXT else ""  # the stored form is then the empty string
    g.check(ok is True, f"identify:{name}{empty}", f"identify(own hash) gave {ok!r}", wit)
    if name in DISABLED:
        n = 0
        for cand in [pw, "", "x", hs, b"\xff", "password"] + [v for _, v in near_misses(_b(pw), None, rng)[:30]]:
            try:
                r = verify(cand, hs)
            except Exception as err:  # noqa: BLE001
                if is_refusal(err, cand, enc, name):
                    continue  # oversize: inadmissible, in particular not True
                r = err
            n += 1
            g.check(r is False, f"disabled-verifies:{name}", f"disabled hasher verify gave {r!r}", dict(wit, candidate=_show(cand)))
        st.near_total += n
        return hs
    # --- positive direction -----------------------------------------------------------------------
    try:
        r = verify(pw, hs)
    except Exception as err:  # noqa: BLE001
        r = f"{type(err).__name__}: {str(err)[:100]}"
    if not g.check(r is True, f"verify-own:{name}{empty}" + ("" if kind == "ascii" else f":{kind}"), f"verify(password, hash(password)) gave {r!r}", wit):
        return hs  # one root cause, one witness: the remaining checks would only repeat it
    if isinstance(pw, str):
        if _encodable(pw, enc) and not cfg.get("_light"):
            try:
                r = verify(pw.encode(enc), hs)
            except Exception as err:  # noqa: BLE001
                r = f"{type(err).__name__}: {str(err)[:100]}"
            g.check(r is True, f"verify-bytes:{name}" + ("" if kind == "ascii" else ":nonascii"), f"verify(encoded bytes of the password) gave {r!r}", dict(wit, encoding=enc))
    else:
        t = _t(pw, enc)
        if t is not None and _encodable(t, enc) and t.encode(enc) == pw:
            try:
                r = verify(t, hs)
            except Exception as err:  # noqa: BLE001
                r = f"{type(err).__name__}: {str(err)[:100]}"
            if not (isinstance(r, str) and r.startswith("Unicode") and not _encodable(t.upper(), enc)):
                g.check(r is True, f"verify-text:{name}:nonascii", f"verify(decoded text of the bytes password) gave {r!r}", dict(wit, encoding=enc))
    # --- negative direction -----------------------------------------------------------------------
    own = canon(pw, cfg)
    pb = _b(pw, enc) if not (isinstance(pw, str) and not _encodable(pw, enc)) else pw.encode("utf-8")
    done = 0
    seen = set()
    for idx, (cat, nb) in enumerate(near_misses(pb, sig, rng)):
        if done >= want_near:
            break
        if nb == pb or b"\0" in nb or len(nb) > 4096 or nb in seen:
            continue
        seen.add(nb)
        cand = nb
        if idx % 2 == 0:
            t = _t(nb, enc)
            if t is not None and _encodable(t, enc) and t.encode(enc) == nb:
                cand = t
        if canon(cand, cfg) & own or canon(nb, cfg) & own:
            continue  # inside a documented equivalence
        try:
            r = verify(cand, hs)
        except Exception as err:  # noqa: BLE001
            if is_refusal(err, cand, enc, name):
                continue
            g.fail(f"near-miss-raises:{name}:{type(err).__name__}", f"verify(near miss) raised {type(err).__name__}: {str(err)[:100]}", dict(wit, near=_show(cand), category=cat))
            continue
        done += 1
        g.check(r is False, f"near-miss:{name}:{CAT_CLASS.get(cat, 'byte')}", f"verify(different password) gave {r!r}", dict(wit, near=_show(cand), category=cat))
    st.near_total += done
    if want_near >= NEAR_MIN and (st.min_near is None or done < st.min_near[0]):  # (reduced cases not counted)
        st.min_near = (done, name, label, pwname)
    return hs


def _encodable(t, enc):
    try:
        t.encode(enc)
    except UnicodeError:
        return False
    return True


def _show(x):
    if isinstance(x, bytes):
        return {"bytes_hex": x.hex()} if len(x) <= 100 else {"bytes_head_hex": x[:40].hex(), "len": len(x)}
    return x if len(x) <= 100 else {"head": x[:40], "len": len(x)}


# =====================================================================================================
def build(tier, rng):
    from passlib import registry
    import passlib.utils.handlers as uh

    quick = tier == "quick"
    want_near = NEAR_MIN if quick else 40  # base configuration; the other settings / contexts use NEAR_MIN
    skipped = []
    st = Stats()
    t_start = time.time()

    g_reg = Group(
        "registry-hashers",
        "GenericHandler.hash/verify",
        "every unwrapped name in registry.list_crypt_handlers() with a backend on this host x passwords {empty, 1 byte, ASCII, 2/3/4-byte UTF-8, non-UTF-8 bytes, T-1/T/T+1, 255, 4096}"
        " x settings {min cost, min+1, default cost, salt size min/max, every ident/variant/version} x context {user, realm, encoding}: str & ASCII, identify, verify True (text and bytes), False for >= 20 near misses outside the documented equivalences."
        " Base configuration x whole password grid; every other setting/context x 2 (quick) / 6-9 (thorough) passwords; default cost: 1 round trip + 1 near miss (quick), 2 passwords x 10 near misses (thorough);"
        " quick tier, pure-Python slow digests (c01.SLOW): 6 near misses for passwords > 1000 bytes",
    )
    g_wrap = Group(
        "prefix-wrappers",
        "PrefixWrapper.hash/verify/identify",
        "every PrefixWrapper in the registry (ldap_*, django_bcrypt, bsd_nthash, roundup_plaintext, ...): same grid and checks as registry-hashers; hash carries the wrapper's prefix",
    )
    g_dis = Group("disabled-hashers", "unix_disabled.verify/django_disabled.verify", "unix_disabled (markers *, !, *LK*, !!) and django_disabled x password grid: verify is False for the password, the hash itself and 20 others")
    g_lib = Group(
        "libpass-hashers",
        "libpass.hashers.*.hash/verify/identify",
        "SHA256Hasher, SHA512Hasher, PBKDF2SHA256Handler, PBKDF2SHA512Handler, BcryptHasher (2a, 2b), BcryptSHA256Hasher (Argon2Hasher if importable) x min cost, min+1, default x password grid; verify(hash, secret)",
    )

    # default prefixes documented for the wrappers (docs: ldap_crypt.rst, django_std.rst, nthash.rst, roundup)
    doc_prefix = {"bsd_nthash": "$3$$", "roundup_plaintext": "{plaintext}", "django_bcrypt": "bcrypt$", "django_argon2": "argon2", "ldap_hex_md5": "{MD5}", "ldap_hex_sha1": "{SHA}"}

    for name in registry.list_crypt_handlers():
        try:
            h = registry.get_crypt_handler(name)
        except Exception as err:  # noqa: BLE001
            skipped.append(f"{name}: cannot load ({type(err).__name__}: {err})")
            continue
        base = base_of(h)
        if getattr(base, "backends", None):
            try:
                have = any(base.has_backend(b) for b in base.backends)
            except Exception as err:  # noqa: BLE001
                have = False
                skipped.append(f"{name}: backend probe raised {type(err).__name__}")
            if not have:
                skipped.append(f"{name}: no backend on this host")
                continue
        is_wrap = isinstance(h, uh.PrefixWrapper)
        g = g_dis if name in DISABLED else (g_wrap if is_wrap else g_reg)
        canon, sig = EQUIV.get(base.name, (eq_exact, None))
        trunc = getattr(base, "truncate_size", None)
        grid = password_grid(tier, rng, trunc)
        # passwords used with the non-base settings / contexts (the base configuration gets the whole grid)
        if not quick:
            few = [p for p in grid if p[0] in ("ascii", "utf8-3", "len255", "nonutf8") or p[0].startswith("T")]
        elif name in SLOW:
            few = [p for p in grid if p[0] == "utf8-3"]
        else:
            few = [p for p in grid if p[0] == "utf8-3" or p[0] == (f"T+1={trunc + 1}" if trunc else "ascii")]
        configs = config_grid(h)
        contexts = context_grid(h)
        for ci, (label, ukw, default_cost) in enumerate(configs):
            try:
                sub = h.using(**ukw) if ukw else h
            except (ValueError, TypeError) as err:
                st.bad_settings.append(f"{name} {label}: using() refused ({type(err).__name__}: {str(err)[:80]})")
                continue
            for xi, ctx in enumerate(contexts):
                if ci and xi:
                    continue  # settings and context are varied one at a time around the base
                pws, near = (grid, want_near) if (ci == 0 and xi == 0) else (few, NEAR_MIN)
                if ctx.get("encoding") and not (ci == 0 and xi == 0):
                    # a context encoding only matters for a non-ASCII password that is text in that encoding:
                    # text and its encoded bytes must denote the same password (hash one form, verify the other)
                    pws = list(pws) + [p for p in grid if p[0] in ("utf8-2", "nonutf8") and p not in pws]
                if default_cost:
                    # the cost itself is not under test: one round trip (quick) / two passwords, 10 near misses (thorough)
                    pws = [p for p in grid if p[0] == "ascii" or (p[0] == "utf8-3" and not quick)]
                    near = 1 if quick else 10
                cfg = dict(ctx)
                cfg["default_encoding"] = getattr(base, "default_encoding", None)
                cfg["_light"] = default_cost and quick  # hash, verify, one near miss
                if quick and name == "sun_md5_crypt":
                    if ci == 0:
                        pws = [p for p in pws if p[0] not in ("utf8-2", "utf8-4", "len255")]
                    elif label.startswith("salt_size") and not label.endswith("=0"):
                        continue
                if "ident" in ukw:
                    cfg["ident"] = ukw["ident"]
                lab = label + ("" if not xi else " ctx=" + ",".join(f"{k}={v}" for k, v in ctx.items()))
                for pwname, pw in pws:
                    hs = run_case(
                        g, st, name, sub, cfg, lab, pwname, pw, rng, SLOW_NEAR if quick and name in SLOW and len(pw) > 1000 else near,
                        verify=lambda s, hh, sub=sub, ctx=ctx: sub.verify(s, hh, **ctx),
                        hash_=lambda s, sub=sub, ctx=ctx: sub.hash(s, **ctx),
                        identify=sub.identify, canon=canon, sig=sig,
                    )  # fmt: skip
                    if hs and is_wrap and isinstance(hs, str):
                        pre = doc_prefix.get(name) or ("{CRYPT}" if name.startswith("ldap_") and name.endswith("crypt") else ("{PBKDF2" if name.startswith("ldap_pbkdf2") else ""))
                        g.check(hs.startswith(pre), f"wrapper-prefix:{name}", "wrapped hash lacks the documented prefix", {"hasher": name, "hash": hs[:60], "prefix": pre})

    # ---- libpass hashers ------------------------------------------------------------------------------
    lib = []
    try:
        from libpass.hashers.sha_crypt import SHA256Hasher, SHA512Hasher

        lib += [("SHA256Hasher", SHA256Hasher, [("rounds=1000", {"rounds": 1000}, False), ("rounds=1001", {"rounds": 1001}, False), ("rounds=5000", {"rounds": 5000}, False), ("default", {}, True)], eq_exact, None)]
        lib += [("SHA512Hasher", SHA512Hasher, [("rounds=1000", {"rounds": 1000}, False), ("rounds=1001", {"rounds": 1001}, False), ("rounds=5000", {"rounds": 5000}, False), ("default", {}, True)], eq_exact, None)]
    except Exception as err:  # noqa: BLE001 (missing or broken optional dependency)
        skipped.append(f"libpass.hashers.sha_crypt: {err}")
    try:
        from libpass.hashers.pbkdf2 import PBKDF2SHA256Handler, PBKDF2SHA512Handler

        for nm, cls in (("PBKDF2SHA256Handler", PBKDF2SHA256Handler), ("PBKDF2SHA512Handler", PBKDF2SHA512Handler)):
            lib.append((nm, cls, [("rounds=1", {"rounds": 1}, False), ("rounds=2", {"rounds": 2}, False), ("salt_entropy_bits=8", {"rounds": 1, "salt_entropy_bits": 8}, False), ("salt_entropy_bits=512", {"rounds": 1, "salt_entropy_bits": 512}, False), ("default", {}, True)], eq_exact, None))
    except Exception as err:  # noqa: BLE001 (missing or broken optional dependency)
        skipped.append(f"libpass.hashers.pbkdf2: {err}")
    try:
        from libpass.hashers.bcrypt import BcryptHasher, BcryptSHA256Hasher

        lib.append(("BcryptHasher", BcryptHasher, [("rounds=4", {"rounds": 4}, False), ("rounds=5", {"rounds": 5}, False), ("rounds=4,2a", {"rounds": 4, "prefix": "2a"}, False), ("rounds=4,2b", {"rounds": 4, "prefix": "2b"}, False), ("default", {}, True)], eq_bcrypt_libpass, 72))
        lib.append(("BcryptSHA256Hasher", BcryptSHA256Hasher, [("rounds=4", {"rounds": 4}, False), ("rounds=5", {"rounds": 5}, False), ("default", {}, True)], eq_exact, None))
    except Exception as err:  # noqa: BLE001 (missing or broken optional dependency)
        skipped.append(f"libpass.hashers.bcrypt: {err}")
    try:
        from libpass.hashers.argon2 import Argon2Hasher

        lib.append(("Argon2Hasher", Argon2Hasher, [(f"t=1,m=8,type={t}", {"time_cost": 1, "memory_cost": 8, "parallelism": 1, "type": t}, False) for t in ("id", "i", "d")] + [("default", {}, True)], eq_exact, None))
    except Exception as err:  # noqa: BLE001 (missing or broken optional dependency)
        skipped.append(f"libpass.hashers.argon2.Argon2Hasher: {err}")

    for nm, cls, cfgs, canon, sig in lib:
        grid = password_grid(tier, rng, 72 if nm == "BcryptHasher" else None)
        few = [p for p in grid if p[0] in (("ascii", "utf8-3") if quick else ("ascii", "utf8-3", "len255", "nonutf8", "T+1=73"))]
        for ci, (label, kw, default_cost) in enumerate(cfgs):
            try:
                obj = cls(**kw)
            except (ValueError, TypeError) as err:
                st.bad_settings.append(f"libpass {nm} {label}: constructor refused ({type(err).__name__}: {err})")
                continue
            pws, near = (grid, want_near) if ci == 0 else (few, NEAR_MIN)
            if default_cost:
                pws = [p for p in grid if p[0] == "ascii" or (p[0] == "utf8-3" and not quick)]
                near = 1 if quick else 10

            def hash_(s, obj=obj, nm=nm):
                try:
                    return obj.hash(s)
                except ValueError as err:
                    # the bcrypt package refuses > 72 bytes and NUL with ValueError; libpass documents no error
                    # type of its own, so the package's refusal is taken as "inadmissible" for BcryptHasher only
                    if nm == "BcryptHasher" and (len(_b(s)) > 72 or b"\0" in _b(s)):
                        from passlib.exc import PasswordValueError

                        raise PasswordValueError(f"bcrypt package: {err}") from None
                    raise

            def verify(s, hh, obj=obj, nm=nm):
                try:
                    return obj.verify(hh, s)
                except ValueError as err:
                    if nm == "BcryptHasher" and (len(_b(s)) > 72 or b"\0" in _b(s)):
                        from passlib.exc import PasswordValueError

                        raise PasswordValueError(f"bcrypt package: {err}") from None
                    raise

            for pwname, pw in pws:
                n_near = SLOW_NEAR if quick and "libpass." + nm in SLOW and len(pw) > 1000 else near
                run_case(g_lib, st, "libpass." + nm, obj, {"_light": default_cost and quick}, label, pwname, pw, rng, n_near, verify=verify, hash_=hash_, identify=obj.identify, canon=canon, sig=sig)

    # libpass PBKDF2 records with caller-supplied salts whose dot-variant base64 text contains '.' and '/' (generated salts never do)
    try:
        from libpass.hashers.pbkdf2 import PBKDF2SHA256Handler, PBKDF2SHA512Handler

        for nm, cls in (("PBKDF2SHA256Handler", PBKDF2SHA256Handler), ("PBKDF2SHA512Handler", PBKDF2SHA512Handler)):
            obj = cls(rounds=1)
            for salt in (bytes(range(240, 256)), b"\xfb\xef\xbe" * 4, b"\xff" * 5, b"\xfb\xff", bytes(range(0, 48, 3))):
                for pw in ("pw", "p\u00e4ss"):
                    g_lib.case(("libpass." + nm, "supplied-salt", salt.hex(), pw))
                    w = {"hasher": "libpass." + nm, "salt_hex": salt.hex(), "password": pw}
                    try:
                        hs = obj.hash(pw, salt=salt)
                        for form in (hs, hs.encode()):
                            ok, bad = obj.verify(form, pw), obj.verify(form, pw + "x")
                            g_lib.check(ok is True, f"verify-own:libpass.{nm}:supplied-salt", f"verify(hash(pw, salt), pw) gave {ok!r} for a salt whose encoding contains '.' or '/'", dict(w, hash=hs))
                            g_lib.check(bad is False, f"near-miss:libpass.{nm}:supplied-salt", "another password verifies", dict(w, hash=hs))
                    except Exception as err:  # noqa: BLE001
                        g_lib.fail(f"verify-own:libpass.{nm}:supplied-salt:raises", f"hash/verify raised {type(err).__name__}: {str(err)[:80]}", w)
    except ImportError:
        pass
    g_first = first_use_group(registry, skipped)
    groups = [g_reg, g_wrap, g_dis, g_lib]
    now = time.time()
    for g in groups:  # Group.out() reports now - t0: make that the time spent in this group's cases
        g.t0 = now - st.group_seconds.get(g.name, 0.0)
    host = {
        "slowest_hashers_s": {k: round(v, 1) for k, v in sorted(st.seconds.items(), key=lambda kv: -kv[1])[:12]},
        "inadmissible": dict(sorted(st.inadmissible.items())),
        "inadmissible_settings": st.bad_settings,
        "near_misses_evaluated": st.near_total,
        "min_near_misses_in_a_case": st.min_near,
        "seconds": round(time.time() - t_start, 1),
    }
    return groups + [g_first], skipped, host


_CHILD = r"""
import json, sys, warnings
warnings.simplefilter("ignore")
from passlib import registry
name, order, good, ctx = sys.argv[1], sys.argv[2], sys.argv[3], json.loads(sys.argv[4])
h = registry.get_crypt_handler(name)
kw = {}
mr = getattr(h, "min_rounds", None)
if "rounds" in (getattr(h, "setting_kwds", None) or ()) and isinstance(mr, int):
    kw["rounds"] = max(mr, 1) | (1 if name.endswith("bsdi_crypt") else 0)
try:
    sub = h.using(**kw) if kw else h
except Exception:
    sub = h
out = {}
try:
    if order == "verify-first":
        out["verify_good_first_call"] = sub.verify("pw", good, **ctx)
        out["verify_wrong_first"] = sub.verify("pw2", good, **ctx)
    h1 = sub.hash("pw", **ctx)
    out["first_hash"] = h1 if isinstance(h1, str) else h1.decode("latin-1")
    out["verify_own"] = sub.verify("pw", h1, **ctx)
    out["verify_wrong"] = sub.verify("pw2", h1, **ctx)
except Exception as err:
    out["error"] = f"{type(err).__name__}: {err}"
print(json.dumps(out))
"""


def first_use_group(registry, skipped):
    """the very first hash()/verify() of a hasher in a fresh interpreter (lazy backend loading happens inside that call)"""
    import subprocess
    from concurrent.futures import ThreadPoolExecutor

    g = Group(
        "first-use-in-a-fresh-process",
        "GenericHandler.hash/verify",
        "every registry hasher with a backend on this host x {hash first, verify first} in a fresh interpreter, password 'pw', minimum cost: the first hash verifies "
        "(in the child and again in this warm process), a hash made here verifies on the child's first call, the wrong password does not",
    )
    jobs = []
    for name in registry.list_crypt_handlers():
        if name in DISABLED or name in ("plaintext", "ldap_plaintext", "roundup_plaintext"):
            continue
        try:
            h = registry.get_crypt_handler(name)
            base = base_of(h)
            if getattr(base, "backends", None) and not any(base.has_backend(b) for b in base.backends):
                continue
            ctx = {}
            for k in getattr(base, "context_kwds", ()) or ():
                if k in ("user", "realm"):
                    ctx[k] = "u" if k == "user" else "r"
            kw = {}
            mr = getattr(h, "min_rounds", None)
            if "rounds" in (getattr(h, "setting_kwds", None) or ()) and isinstance(mr, int):
                kw["rounds"] = max(mr, 1) | (1 if name.endswith("bsdi_crypt") else 0)
            try:
                sub = h.using(**kw) if kw else h
            except Exception:  # noqa: BLE001
                sub = h
            good = sub.hash("pw", **ctx)
            if sub.verify("pw2", good, **ctx):
                continue  # formats where 'pw' and 'pw2' are documented equivalents do not exist; guard anyway
        except Exception as err:  # noqa: BLE001
            skipped.append(f"first-use {name}: {type(err).__name__}: {str(err)[:60]}")
            continue
        for order in ("hash-first", "verify-first"):
            jobs.append((name, order, good if isinstance(good, str) else good.decode("latin-1"), ctx, sub))

    def run(job):
        name, order, good, ctx, sub = job
        env = dict(os.environ)
        p = subprocess.run([sys.executable, "-c", _CHILD, name, order, good, json.dumps(ctx)], capture_output=True, text=True, timeout=300, env=env)
        line = (p.stdout.strip().splitlines() or [""])[-1]
        try:
            return job, json.loads(line)
        except ValueError:
            return job, {"error": "child produced no result: " + (p.stderr or p.stdout)[-200:]}

    with ThreadPoolExecutor(8) as ex:
        for (name, order, good, ctx, sub), out in ex.map(run, jobs):
            g.case((name, order))
            w = {"hasher": name, "order": order, "child": out}
            if not g.check("error" not in out, f"first-use:{name}:error", "first use in a fresh process raised", w):
                continue
            g.check(out.get("verify_own") is True, f"first-use:{name}:own-hash-rejected", "the first hash made in a fresh process does not verify its password", w)
            g.check(out.get("verify_wrong") is False, f"first-use:{name}:wrong-accepted", "the first hash made in a fresh process verifies another password", w)
            if order == "verify-first":
                g.check(out.get("verify_good_first_call") is True, f"first-use:{name}:first-verify-rejected", "the first verify() call of a fresh process rejects a valid hash", w)
                g.check(out.get("verify_wrong_first") is False, f"first-use:{name}:first-verify-wrong-accepted", "the first verify() calls of a fresh process accept another password", w)
            try:
                again = sub.verify("pw", out["first_hash"], **ctx)
            except Exception as err:  # noqa: BLE001
                again = f"{type(err).__name__}: {err}"
            g.check(again is True, f"first-use:{name}:first-hash-wrong", "the first hash made in a fresh process is rejected by a warm process (it is not the format's digest)", dict(w, warm_verify=repr(again)))
    return g


if __name__ == "__main__":
    main(build)
