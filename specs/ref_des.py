"""Independent bit-level DES written from FIPS 46-3 (tables copied from the standard), plus the
crypt(3) variations: the 24-bit "salt" that swaps E-box output positions k and k+24 (Unix V7 crypt.c:
``temp=E[6*i+j]; E[6*i+j]=E[6*i+j+24]; E[6*i+j+24]=temp``) and repeated encryption with the same key.

Shares nothing with passlib.  Bits are lists of 0/1, position 0 = bit 1 of the standard (leftmost/MSB).
Deliberately straightforward and slow.

Formats built on it: des_crypt, bsdi_crypt (FreeSec), bigcrypt, crypt16, lmhash, oracle10.
"""

IP = [58, 50, 42, 34, 26, 18, 10, 2, 60, 52, 44, 36, 28, 20, 12, 4,
      62, 54, 46, 38, 30, 22, 14, 6, 64, 56, 48, 40, 32, 24, 16, 8,
      57, 49, 41, 33, 25, 17, 9, 1, 59, 51, 43, 35, 27, 19, 11, 3,
      61, 53, 45, 37, 29, 21, 13, 5, 63, 55, 47, 39, 31, 23, 15, 7]

# IP^-1 is by definition the inverse permutation of IP
FP = [0] * 64
for _i, _v in enumerate(IP):
    FP[_v - 1] = _i + 1

E = [32, 1, 2, 3, 4, 5, 4, 5, 6, 7, 8, 9, 8, 9, 10, 11, 12, 13,
     12, 13, 14, 15, 16, 17, 16, 17, 18, 19, 20, 21, 20, 21, 22, 23, 24, 25,
     24, 25, 26, 27, 28, 29, 28, 29, 30, 31, 32, 1]

P = [16, 7, 20, 21, 29, 12, 28, 17, 1, 15, 23, 26, 5, 18, 31, 10,
     2, 8, 24, 14, 32, 27, 3, 9, 19, 13, 30, 6, 22, 11, 4, 25]

PC1 = [57, 49, 41, 33, 25, 17, 9, 1, 58, 50, 42, 34, 26, 18,
       10, 2, 59, 51, 43, 35, 27, 19, 11, 3, 60, 52, 44, 36,
       63, 55, 47, 39, 31, 23, 15, 7, 62, 54, 46, 38, 30, 22,
       14, 6, 61, 53, 45, 37, 29, 21, 13, 5, 28, 20, 12, 4]

PC2 = [14, 17, 11, 24, 1, 5, 3, 28, 15, 6, 21, 10,
       23, 19, 12, 4, 26, 8, 16, 7, 27, 20, 13, 2,
       41, 52, 31, 37, 47, 55, 30, 40, 51, 45, 33, 48,
       44, 49, 39, 56, 34, 53, 46, 42, 50, 36, 29, 32]

SHIFTS = [1, 1, 2, 2, 2, 2, 2, 2, 1, 2, 2, 2, 2, 2, 2, 1]

SBOX = [
    [[14, 4, 13, 1, 2, 15, 11, 8, 3, 10, 6, 12, 5, 9, 0, 7],
     [0, 15, 7, 4, 14, 2, 13, 1, 10, 6, 12, 11, 9, 5, 3, 8],
     [4, 1, 14, 8, 13, 6, 2, 11, 15, 12, 9, 7, 3, 10, 5, 0],
     [15, 12, 8, 2, 4, 9, 1, 7, 5, 11, 3, 14, 10, 0, 6, 13]],
    [[15, 1, 8, 14, 6, 11, 3, 4, 9, 7, 2, 13, 12, 0, 5, 10],
     [3, 13, 4, 7, 15, 2, 8, 14, 12, 0, 1, 10, 6, 9, 11, 5],
     [0, 14, 7, 11, 10, 4, 13, 1, 5, 8, 12, 6, 9, 3, 2, 15],
     [13, 8, 10, 1, 3, 15, 4, 2, 11, 6, 7, 12, 0, 5, 14, 9]],
    [[10, 0, 9, 14, 6, 3, 15, 5, 1, 13, 12, 7, 11, 4, 2, 8],
     [13, 7, 0, 9, 3, 4, 6, 10, 2, 8, 5, 14, 12, 11, 15, 1],
     [13, 6, 4, 9, 8, 15, 3, 0, 11, 1, 2, 12, 5, 10, 14, 7],
     [1, 10, 13, 0, 6, 9, 8, 7, 4, 15, 14, 3, 11, 5, 2, 12]],
    [[7, 13, 14, 3, 0, 6, 9, 10, 1, 2, 8, 5, 11, 12, 4, 15],
     [13, 8, 11, 5, 6, 15, 0, 3, 4, 7, 2, 12, 1, 10, 14, 9],
     [10, 6, 9, 0, 12, 11, 7, 13, 15, 1, 3, 14, 5, 2, 8, 4],
     [3, 15, 0, 6, 10, 1, 13, 8, 9, 4, 5, 11, 12, 7, 2, 14]],
    [[2, 12, 4, 1, 7, 10, 11, 6, 8, 5, 3, 15, 13, 0, 14, 9],
     [14, 11, 2, 12, 4, 7, 13, 1, 5, 0, 15, 10, 3, 9, 8, 6],
     [4, 2, 1, 11, 10, 13, 7, 8, 15, 9, 12, 5, 6, 3, 0, 14],
     [11, 8, 12, 7, 1, 14, 2, 13, 6, 15, 0, 9, 10, 4, 5, 3]],
    [[12, 1, 10, 15, 9, 2, 6, 8, 0, 13, 3, 4, 14, 7, 5, 11],
     [10, 15, 4, 2, 7, 12, 9, 5, 6, 1, 13, 14, 0, 11, 3, 8],
     [9, 14, 15, 5, 2, 8, 12, 3, 7, 0, 4, 10, 1, 13, 11, 6],
     [4, 3, 2, 12, 9, 5, 15, 10, 11, 14, 1, 7, 6, 0, 8, 13]],
    [[4, 11, 2, 14, 15, 0, 8, 13, 3, 12, 9, 7, 5, 10, 6, 1],
     [13, 0, 11, 7, 4, 9, 1, 10, 14, 3, 5, 12, 2, 15, 8, 6],
     [1, 4, 11, 13, 12, 3, 7, 14, 10, 15, 6, 8, 0, 5, 9, 2],
     [6, 11, 13, 8, 1, 4, 10, 7, 9, 5, 0, 15, 14, 2, 3, 12]],
    [[13, 2, 8, 4, 6, 15, 11, 1, 10, 9, 3, 14, 5, 0, 12, 7],
     [1, 15, 13, 8, 10, 3, 7, 4, 12, 5, 6, 11, 0, 14, 9, 2],
     [7, 11, 4, 1, 9, 12, 14, 2, 0, 6, 10, 13, 15, 3, 5, 8],
     [2, 1, 14, 7, 4, 10, 8, 13, 15, 12, 9, 0, 3, 5, 6, 11]],
]


def int_to_bits(v, n):
    return [(v >> (n - 1 - i)) & 1 for i in range(n)]


def bits_to_int(bits):
    v = 0
    for b in bits:
        v = (v << 1) | b
    return v


def bytes_to_bits(data):
    return int_to_bits(int.from_bytes(data, "big"), 8 * len(data))


def bits_to_bytes(bits):
    return bits_to_int(bits).to_bytes(len(bits) // 8, "big")


def permute(bits, table):
    return [bits[t - 1] for t in table]


def key_schedule(key_bits):
    """64 key bits (parity positions 8,16,..,64 never selected by PC1) -> 16 subkeys of 48 bits"""
    cd = permute(key_bits, PC1)
    c, d = cd[:28], cd[28:]
    out = []
    for s in SHIFTS:
        c = c[s:] + c[:s]
        d = d[s:] + d[:s]
        out.append(permute(c + d, PC2))
    return out


def salted_e_table(salt):
    """E table with entries k and k+24 exchanged for every set bit k of the 24-bit salt (V7 crypt.c)"""
    e = list(E)
    for k in range(24):
        if (salt >> k) & 1:
            e[k], e[k + 24] = e[k + 24], e[k]
    return e


def feistel(r, subkey, etable):
    x = [a ^ b for a, b in zip(permute(r, etable), subkey)]
    out = []
    for i in range(8):
        six = x[6 * i : 6 * i + 6]
        row = (six[0] << 1) | six[5]
        col = (six[1] << 3) | (six[2] << 2) | (six[3] << 1) | six[4]
        out.extend(int_to_bits(SBOX[i][row][col], 4))
    return permute(out, P)


def encrypt_bits(block_bits, subkeys, salt=0):
    etable = salted_e_table(salt)
    x = permute(block_bits, IP)
    l, r = x[:32], x[32:]
    for k in subkeys:
        l, r = r, [a ^ b for a, b in zip(l, feistel(r, k, etable))]
    return permute(r + l, FP)


def des_encrypt_int(key64, block64, salt=0, rounds=1):
    """DES (FIPS 46-3) applied `rounds` times with the same key; salt perturbs E as in crypt(3)"""
    ks = key_schedule(int_to_bits(key64, 64))
    bits = int_to_bits(block64, 64)
    for _ in range(rounds):
        bits = encrypt_bits(bits, ks, salt)
    return bits_to_int(bits)


def des_decrypt_int(key64, block64):
    ks = key_schedule(int_to_bits(key64, 64))[::-1]
    return bits_to_int(encrypt_bits(int_to_bits(block64, 64), ks, 0))


def des_encrypt_bytes(key8, block8, salt=0, rounds=1):
    return des_encrypt_int(int.from_bytes(key8, "big"), int.from_bytes(block8, "big"), salt, rounds).to_bytes(8, "big")


def expand_key_7to8(key7):
    """56 bits -> 8 bytes, each holding 7 key bits in its high bits, parity position (LSB) zero"""
    bits = bytes_to_bits(key7)
    out = []
    for i in range(8):
        out.extend(bits[7 * i : 7 * i + 7] + [0])
    return bits_to_bytes(out)


def shrink_key_8to7(key8):
    bits = bytes_to_bits(key8)
    out = []
    for i in range(8):
        out.extend(bits[8 * i : 8 * i + 7])
    return bits_to_bytes(out)


# ---------------------------------------------------------------------------------------------
# crypt(3) family
# ---------------------------------------------------------------------------------------------
H64 = "./0123456789ABCDEFGHIJKLMNOPQRSTUVWXYZabcdefghijklmnopqrstuvwxyz"


def h64_le_int(s):
    """little-endian base-64 number: first char is least significant"""
    v = 0
    for i, ch in enumerate(s):
        v |= H64.index(ch) << (6 * i)
    return v


def h64_le_str(v, n):
    return "".join(H64[(v >> (6 * i)) & 63] for i in range(n))


def encode_block(v64):
    """64-bit block + 2 zero bits -> 11 chars, most significant 6 bits first"""
    v = v64 << 2
    return "".join(H64[(v >> (6 * (10 - i))) & 63] for i in range(11))


def secret_key(chunk):
    """up to 8 password bytes -> 64-bit key: every byte shifted left by one (bit 7 lost), NUL padded"""
    chunk = bytes(chunk[:8]).ljust(8, b"\0")
    return int.from_bytes(bytes((c << 1) & 0xFF for c in chunk), "big")


def des_crypt(pw, salt):
    """traditional crypt: pw bytes, salt 2 chars -> 13 chars"""
    return salt + encode_block(des_encrypt_int(secret_key(pw), 0, h64_le_int(salt), 25))


def bsdi_crypt(pw, salt, rounds):
    """BSDi extended DES crypt (FreeSec crypt.c): '_' + 4 chars rounds + 4 chars salt + 11 chars"""
    key = secret_key(pw[:8])
    pos = 8
    while pos < len(pw):
        key = des_encrypt_int(key, key, 0, 1)
        key ^= secret_key(pw[pos : pos + 8])
        pos += 8
    return "_" + h64_le_str(rounds, 4) + salt + encode_block(des_encrypt_int(key, 0, h64_le_int(salt), rounds))


def bigcrypt(pw, salt):
    out = salt
    seg_salt = salt
    nseg = max(1, (len(pw) + 7) // 8)
    for i in range(nseg):
        seg = encode_block(des_encrypt_int(secret_key(pw[8 * i : 8 * i + 8]), 0, h64_le_int(seg_salt), 25))
        out += seg
        seg_salt = seg[:2]
    return out


def crypt16(pw, salt):
    s = h64_le_int(salt)
    a = encode_block(des_encrypt_int(secret_key(pw[:8]), 0, s, 20))
    b = encode_block(des_encrypt_int(secret_key(pw[8:16]), 0, s, 5))
    return salt + a + b


def lmhash(pw_oem_bytes):
    """pw already encoded in the OEM code page; upper-cased here bytewise for ASCII only by the caller"""
    data = pw_oem_bytes[:14].ljust(14, b"\0")
    magic = b"KGS!@#$%"
    return (des_encrypt_bytes(expand_key_7to8(data[:7]), magic) + des_encrypt_bytes(expand_key_7to8(data[7:]), magic)).hex()


def des_cbc_last_block(key8, data):
    iv = bytes(8)
    for i in range(0, len(data), 8):
        blk = bytes(a ^ b for a, b in zip(iv, data[i : i + 8]))
        iv = des_encrypt_bytes(key8, blk)
    return iv


def oracle10(pw, user):
    data = (user + pw).upper().encode("utf-16-be")
    data += bytes(-len(data) % 8)
    k = des_cbc_last_block(bytes.fromhex("0123456789ABCDEF"), data)
    return des_cbc_last_block(k, data).hex().upper()


def selftest():
    assert des_encrypt_int(0x133457799BBCDFF1, 0x0123456789ABCDEF) == 0x85E813540F0AB405
    assert des_decrypt_int(0x133457799BBCDFF1, 0x85E813540F0AB405) == 0x0123456789ABCDEF
    # NBS/NIST known answers (SP 800-17 variable plaintext, key 0101010101010101)
    assert des_encrypt_int(0x0101010101010101, 0x8000000000000000) == 0x95F8A5E5DD31D900
    assert des_encrypt_int(0x8001010101010101, 0) == 0x95A8D72813DAA94D
    return True


selftest()
