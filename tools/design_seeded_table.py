#!/usr/bin/env python3
"""Rewrite the seeded-change table of DESIGN.md (between the SEEDED-TABLE markers) from seeded/RESULTS.json and seeded/*/meta.json."""
import json, os, re
V = os.path.dirname(os.path.dirname(os.path.abspath(__file__)))
res = json.load(open(f"{V}/seeded/RESULTS.json"))
rows = ["| change | what it alters (file: function) | caught by (quick tier) | first reported obligation / group |", "|----|----|----|----|"]
def short(x, n=150):
    x = re.sub(r"\s+", " ", str(x)).replace("|", "/")
    return x if len(x) <= n else x[: n - 1] + "…"
for sid in sorted(res):
    r = res[sid]
    try:
        meta = json.load(open(f"{V}/seeded/{sid}/meta.json"))
    except Exception:
        meta = {}
    notes = meta.get("agent_notes") or {}
    if isinstance(notes, str):
        what = notes
    else:
        what = " ".join(str(notes.get(k, "")) for k in ("file", "files", "function", "location", "mechanism", "change", "what", "summary", "description", "title") if notes.get(k))
        if not what:
            what = json.dumps(notes)[:300]
    try:
        patch = open(f"{V}/seeded/{sid}/patch.diff").read()
        files = sorted(set(re.findall(r"^\+\+\+ b/(\S+)", patch, re.M)))
    except Exception:
        files = []
    ctxs = []
    for m in re.finditer(r"^@@ [^@]*@@ ?(.*)$", patch if files else "", re.M):
        c = m.group(1).strip()
        c = re.sub(r"^(async )?(def|class) ", "", c).split("(")[0].rstrip(":")
        if c and c not in ctxs:
            ctxs.append(c)
    hint = ""
    if isinstance(notes, dict):
        for k in ("mechanism", "change", "what_changed", "what", "summary", "looks_like", "breaks", "description"):
            if notes.get(k):
                hint = str(notes[k])
                break
    what = "; ".join(files) + " (" + ", ".join(ctxs[:3]) + ")" + (": " + hint if hint else "")
    caught = "+".join(r.get("caught_by") or []) or ("**missed**" if r.get("check_rc") == 0 else "?")
    first = (r.get("first") or [""])[0]
    first = re.sub(r"^C\d\d_(passlib|libpass)_[A-Za-z0-9_]+?\.py_", "", first)
    rows.append(f"| {sid} | {short(what, 230)} | {caught} | `{short(first, 110)}` |")
table = "\n".join(rows)
p = f"{V}/DESIGN.md"
s = open(p).read()
if "<!-- SEEDED-TABLE-BEGIN -->" in s:
    s = re.sub(r"<!-- SEEDED-TABLE-BEGIN -->.*?<!-- SEEDED-TABLE-END -->", lambda m: "<!-- SEEDED-TABLE-BEGIN -->\n" + table + "\n<!-- SEEDED-TABLE-END -->", s, flags=re.S)
else:
    s = s.replace("SEEDED_TABLE_PLACEHOLDER", "<!-- SEEDED-TABLE-BEGIN -->\n" + table + "\n<!-- SEEDED-TABLE-END -->")
open(p, "w").write(s)
print(len(rows) - 2, "rows")
