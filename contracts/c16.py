"""C16 -- htpasswd/htdigest files stay a faithful user database under any edit history."""
import z3

from contracts.trusted import COMMON, fresh_str
from pyvc.contract import Bool, Bytes, Const, Contract, Int, NoneT, Obj, Str, Union
from pyvc.runner import Bounded
from pyvc.symexec import RaiseSig, exc_class
from pyvc.values import SBool, SDict, SExc, SInt, SMap, SObj, SStr, SStub

LEVEL = "proof"
A = "passlib/apache.py"
EXPLANATION = (
    "Representation invariant of _CommonFile (ghost view, skolemised): every key has at most one (_RECORD, key) entry in "
    "_source and every current key has exactly one. _set_record, HtpasswdFile.set_hash/delete and HtdigestFile.delete are "
    "verified from their real source to preserve it for an arbitrary key (maps as arrays, the _source list as a ghost "
    "multiset); _encode_field is verified to refuse separators, control characters and more than 255 bytes. _load_lines is verified "
    "with a loop invariant over an ABSTRACT sequence of lines of unknown length (comment / blank / record / duplicate / malformed "
    "lines in any mixture; _parse_record abstract): it establishes the invariant from scratch, drops duplicate lines, and installs "
    "the new maps only after the last line parsed (a malformed line leaves the object untouched). The _iter_lines generator and "
    "whole operation sequences are covered by the bounded stand-in."
)
ASSUMPTIONS = [
    "_source is abstracted by the ghost multiset of its (_RECORD, key) entries; order of lines is checked by the bounded stand-in only",
    "_autosave() does not change _records/_source (it calls save(), which only reads them)",
]

tokens_f = None


def _file_setup(it, args):
    """self with _records: symbolic map bytes->bytes, _source: ghost multiset"""
    dom = z3.Array("records.dom", z3.StringSort(), z3.BoolSort())
    arr = z3.Array("records.val", z3.StringSort(), z3.StringSort())
    records = SMap(dom, arr, z3.StringSort(), lambda e: SStr(e, "bytes"), "records")
    tokens = {"arr": z3.Array("tokens", z3.StringSort(), z3.IntSort())}

    def append(it2, a, k):
        tag, key = it2.unpack(a[0], 2)
        kz = it2.to_z3(key)
        tokens["arr"] = z3.Store(tokens["arr"], kz, z3.Select(tokens["arr"], kz) + 1)
        it2.run.writes.append(("_source", "append", it2.lineno))

    def contains(it2, a, k):
        tag, key = it2.unpack(a[0], 2)
        return SBool(z3.Select(tokens["arr"], it2.to_z3(key)) > 0)

    source = SObj("_source", fields={"append": SStub(append, "_source.append"), "__contains__": SStub(contains, "(_RECORD, key) in _source")})
    self = args["self"]
    self.fields["_records"] = records
    self.fields["_source"] = source
    self.fields["_autosave"] = SStub(lambda i, a, k: None, "_autosave", trusted="save() only reads the state")
    self.fields["encoding"] = "utf-8"
    q = z3.String("q")  # arbitrary key (skolem)
    it.run.ghost.update({"records": records, "tokens": tokens, "q": q, "dom0": dom, "arr0": arr, "tok0": tokens["arr"]})

    def inv_at(d, t, k):
        c = z3.Select(t, k)
        return z3.And(c >= 0, c <= 1, z3.Implies(z3.Select(d, k), c == 1))

    it.run.ghost["inv_at"] = inv_at
    # precondition: the invariant holds for every key; instantiated at the skolem key (and, below, at the touched key)
    it.run.assume(inv_at(dom, tokens["arr"], q))
    return None


def _assume_inv_at(name):
    def req(it, env):
        g = it.run.ghost
        k = it.to_z3(env.lookup(name))
        return g["inv_at"](g["dom0"], g["tok0"], k)

    return req


def _inv_post(it, env):
    g = it.run.ghost
    return g["inv_at"](g["records"].dom, g["tokens"]["arr"], g["q"])


def _others_untouched(keyname):
    def post(it, env):
        g = it.run.ghost
        k = it.to_z3(env.lookup(keyname))
        q = g["q"]
        return z3.Implies(q != k, z3.And(z3.Select(g["records"].dom, q) == z3.Select(g["dom0"], q), z3.Select(g["records"].arr, q) == z3.Select(g["arr0"], q),
                                          z3.Select(g["tokens"]["arr"], q) == z3.Select(g["tok0"], q)))

    return post


CONTRACTS = [
    Contract(
        "_CommonFile._set_record", f"{A}::_CommonFile._set_record",
        params={"self": Obj(), "key": Bytes(), "value": Bytes()},
        setup=_file_setup,
        requires=[_assume_inv_at("key")],
        globals={"_RECORD": "record"},
        ensures=[
            ("invariant preserved for every key: at most one source entry, exactly one for a current key", _inv_post),
            ("the key now maps to the value", lambda it, env: z3.And(z3.Select(it.run.ghost["records"].dom, it.to_z3(env.lookup("key"))), z3.Select(it.run.ghost["records"].arr, it.to_z3(env.lookup("key"))) == it.to_z3(env.lookup("value")))),
            ("returns whether the key was already present", lambda it, env: it.to_zbool(it.truth(env.lookup("result"))) == z3.Select(it.run.ghost["dom0"], it.to_z3(env.lookup("key")))),
            ("every other key keeps its record and its source entry", _others_untouched("key")),
        ],
        descr="any map, any source multiset satisfying the invariant, any key (incl. deleted-then-re-added)",
    ),
    Contract(
        "HtpasswdFile.delete", f"{A}::HtpasswdFile.delete",
        params={"self": Obj(), "user": Bytes()},
        setup=lambda it, args: (_file_setup(it, args), args["self"].fields.__setitem__("_encode_user", SStub(lambda i, a, k: a[0], "_encode_user (identity on valid bytes)")))[0],
        requires=[_assume_inv_at("user")],
        ensures=[
            ("invariant preserved for every key", _inv_post),
            ("the user is gone", lambda it, env: z3.Not(z3.Select(it.run.ghost["records"].dom, it.to_z3(env.lookup("user"))))),
            ("True iff the user existed", lambda it, env: it.to_zbool(it.truth(env.lookup("result"))) == z3.Select(it.run.ghost["dom0"], it.to_z3(env.lookup("user")))),
            ("every other key keeps its record and its source entry", _others_untouched("user")),
        ],
    ),
    Contract(
        "HtpasswdFile.set_hash", f"{A}::HtpasswdFile.set_hash",
        params={"self": Obj(cls=(A, "HtpasswdFile")), "user": Bytes(), "hash": Bytes()},
        setup=lambda it, args: (_file_setup(it, args), args["self"].fields.__setitem__("_encode_user", SStub(lambda i, a, k: a[0], "_encode_user (identity on valid bytes)")))[0],
        requires=[_assume_inv_at("user")],
        globals={"_RECORD": "record"},
        ensures=[("invariant preserved for every key", _inv_post), ("every other key keeps its record and its source entry", _others_untouched("user"))],
    ),
    Contract(
        "_CommonFile._encode_field", f"{A}::_CommonFile._encode_field",
        params={"self": Obj(fields={"encoding": "utf-8"}), "value": Union(Bytes(), NoneT(), Int()), "param": Const("user")},
        raises={"TypeError": "not isinstance(value, bytes)",
                "ValueError": "isinstance(value, bytes) and (len(value) > 255 or b':' in value or b'\\n' in value or b'\\r' in value or b'\\t' in value or b'\\x00' in value)"},
        ensures=[("accepted names are at most 255 bytes and free of separators / control characters",
                  "len(result) <= 255 and b':' not in result and b'\\n' not in result and b'\\r' not in result and b'\\t' not in result and b'\\x00' not in result and result == value")],
        descr="every byte string / wrong types",
    ),
]

from contracts import c16_load  # noqa: E402

CONTRACTS += c16_load.CONTRACTS
from contracts import misc_quick as _mq  # noqa: E402

CONTRACTS += _mq.htdigest_hash + _mq.encode_field_text + [_mq.htdigest_set_password]
BOUNDED = [Bounded("c16", "harness/c16.py", descr="operation sequences over small alphabets vs an independent reader", timeout=900)]

MUTANTS = [
    ("_set_record appends a second source entry for a deleted-then-re-added key", A, "        if not existing and (_RECORD, key) not in self._source:\n", "        if not existing:\n", "refute"),
    ("_set_record never appends", A, "        if not existing and (_RECORD, key) not in self._source:\n", "        if existing and (_RECORD, key) not in self._source:\n", "refute"),
    ("delete reports the wrong outcome", A, "        try:\n            del self._records[self._encode_user(user)]\n        except KeyError:\n            return False\n        self._autosave()\n        return True\n\n    def check_password(self, user, password):", "        try:\n            del self._records[self._encode_user(user)]\n        except KeyError:\n            return True\n        self._autosave()\n        return True\n\n    def check_password(self, user, password):", "refute"),
    ("_encode_field allows 256 bytes", A, "        if len(value) > 255:\n", "        if len(value) > 256:\n", "refute"),
    ("_encode_field forgets the tab", A, '_INVALID_FIELD_CHARS = b":\\n\\r\\t\\x00"', '_INVALID_FIELD_CHARS = b":\\n\\r\\x00"', "refute"),
]
MUTANTS += c16_load.MUTANTS
