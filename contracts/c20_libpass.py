"""C20 / C01, libpass side: PBKDF2SHAHandler.hash / verify / needs_update from their real source, with PBKDF2 (hashlib), the
dot-variant base64 helpers (C12) and the record class abstract; lemma: verify(hash(s), s) given parse(render(r)) == r."""
import z3

from pyvc.contract import Bytes, Const, Contract, Int, Lemma, NoneT, Obj, Opt, Str, Union
from pyvc.values import SBool, SInt, SObj, SStr, SStub

P = "libpass/hashers/pbkdf2.py"
S = z3.StringSort()
KDF = z3.Function("pbkdf2_hmac", S, S, S, z3.IntSort(), S)   # (hash name, password, salt, iterations)
AB = z3.Function("ab64_encode", S, S)
ABD = z3.Function("ab64_decode", S, S)
RENDER = z3.Function("info.as_str", z3.IntSort(), S, S, S)   # (rounds, salt text, hash text) -> string
U8 = z3.Function("utf8", S, S)
HASHNAME = "sha256"


def _info(it, rounds, salt, hsh):
    o = SObj(it.run.fresh("info"), fresh=True, fields={"rounds": rounds, "salt": salt, "hash": hsh})
    o.fields["as_str"] = SStub(lambda i, a, k: SStr(RENDER(i.to_z3(rounds, "int"), i.to_z3(salt), i.to_z3(hsh)), "str"), "as_str")
    return o


def _setup(it, args):
    self = args["self"]

    def kdf(i, a, k):
        name = a[0] if a else k.get("hash_name")
        pw, salt, n = k.get("password", a[1] if len(a) > 1 else None), k.get("salt", a[2] if len(a) > 2 else None), k.get("iterations", a[3] if len(a) > 3 else None)
        return SStr(KDF(i.to_z3(name), i.to_z3(pw), i.to_z3(salt), i.to_z3(n, "int")), "bytes")

    def ab_enc(i, a, k):
        r = SStr(AB(i.to_z3(a[0])), "bytes")
        i.run.assume(i.all_codes_below(r.e, 128))
        return r

    parsed = {"ok": z3.Bool("hash is a pbkdf2 record of this class"), "rounds": z3.Int("parsed.rounds"), "salt": z3.String("parsed.salt"), "hash": z3.String("parsed.hash")}

    def inspect(i, a, k):
        if i.run.branch(parsed["ok"]):
            return _info(i, SInt(parsed["rounds"]), SStr(parsed["salt"], "str"), SStr(parsed["hash"], "str"))
        return None

    g = it.genv.vars
    g["pbkdf2_hmac"] = SStub(kdf, "hashlib.pbkdf2_hmac")
    g["ab64_encode"] = SStub(ab_enc, "ab64_encode (C12)")
    g["ab64_decode"] = SStub(lambda i, a, k: SStr(ABD(i.to_z3(a[0])), "bytes"), "ab64_decode (C12)")
    g["inspect_pbkdf2_hash"] = SStub(inspect, "inspect_pbkdf2_hash (C07)")
    g["hmac"] = SObj("hmac", fields={"compare_digest": SStub(lambda i, a, k: i.cmp_vals("==", a[0], a[1]), "hmac.compare_digest")})
    self.fields.update({"HASH_NAME": HASHNAME, "HASH_INFO_CLS": SObj("InfoCls", is_class=True), "_salt": SStub(lambda i, a, k: SStr(z3.String("generated salt"), "bytes"), "_salt()")})
    it.genv.vars["new.InfoCls"] = None
    it.run.ghost["parsed"] = parsed
    return {"parsed_ok": SBool(parsed["ok"]), "parsed_rounds": SInt(parsed["rounds"])}


def _new_info(it, args, kwargs):
    return _info(it, kwargs["rounds"], kwargs["salt"], kwargs["hash"])


G = {"new.*": SStub(_new_info, "HASH_INFO_CLS(...)", trusted="dataclass constructor; as_str() renders '$name$rounds$salt$hash' (C07)")}


def _as_bytes(it, v):
    v = it.resolve(v)
    return it.to_z3(v) if it.kind_of(v) == "bytes" else U8(it.to_z3(v))


def _hash_post(it, env):
    self = it.resolve(env.lookup("self"))
    secret = it.to_z3(env.lookup("secret"))
    salt = env.lookup("salt")
    rounds = env.lookup("rounds")
    zsalt = z3.String("generated salt") if it.resolve(salt) is None else z3.If(z3.Length(it.to_z3(salt)) > 0, it.to_z3(salt), z3.String("generated salt"))
    zr = it.to_z3(self.fields["_rounds"], "int") if it.resolve(rounds) is None else z3.If(it.to_z3(rounds, "int") != 0, it.to_z3(rounds, "int"), it.to_z3(self.fields["_rounds"], "int"))
    want = RENDER(zr, AB(zsalt), AB(KDF(z3.StringVal(HASHNAME), secret, zsalt, zr)))
    return it.to_z3(env.lookup("result")) == want


def _verify_post(it, env):
    p = it.run.ghost["parsed"]
    hsh = it.to_z3(env.lookup("hash"))
    secret = it.to_z3(env.lookup("secret"))
    salt = ABD(p["salt"])
    again = RENDER(p["rounds"], AB(salt), AB(KDF(z3.StringVal(HASHNAME), secret, salt, p["rounds"])))
    res = it.to_zbool(it.truth(env.lookup("result")))
    return z3.And(z3.Implies(z3.Not(p["ok"]), z3.Not(res)), z3.Implies(p["ok"], res == (hsh == again)))


SELF = Obj(cls=(P, "PBKDF2SHAHandler"), fields={"_rounds": Int(lo=1), "_salt_entropy_bits": Const(128)})
CONTRACTS = [
    Contract(
        "libpass.PBKDF2SHAHandler.hash", f"{P}::PBKDF2SHAHandler.hash",
        params={"self": SELF, "secret": Bytes(), "salt": Opt(Bytes()), "rounds": Opt(Int(lo=0))},
        setup=_setup, globals=G, kwonly=("salt", "rounds"),
        ensures=[("hash == record(rounds, ab64(salt), ab64(PBKDF2-HMAC(name, secret, salt, rounds))) with the instance's cost / a generated salt where none (or an empty / zero one) is given", _hash_post)],
        descr="every secret (bytes), optional salt and cost",
    ),
    Contract(
        "libpass.PBKDF2SHAHandler.verify", f"{P}::PBKDF2SHAHandler.verify",
        params={"self": SELF, "hash": Str(), "secret": Bytes()},
        setup=_setup, globals=G,
        requires=[lambda it, env: z3.And(z3.Length(ABD(it.run.ghost["parsed"]["salt"])) > 0, it.run.ghost["parsed"]["rounds"] >= 1)],
        ensures=[("False for anything that is not a record of this class; otherwise True exactly when the string equals the record recomputed from its own salt and cost for this secret", _verify_post)],
        descr="every string, every secret; parsed records with a non-empty salt and cost >= 1",
    ),
    Contract(
        "libpass.PBKDF2SHAHandler.needs_update", f"{P}::PBKDF2SHAHandler.needs_update",
        params={"self": SELF, "hash": Str()},
        setup=_setup, globals=G,
        ensures=[("an update is asked exactly for foreign strings and for records whose cost differs from the configured one",
                  "result == (not parsed_ok or parsed_rounds != self._rounds)")],
    ),
]


def _roundtrip():
    r = z3.Int("r")
    secret, other, salt = z3.Strings("secret other salt")
    name = z3.StringVal(HASHNAME)
    h = RENDER(r, AB(salt), AB(KDF(name, secret, salt, r)))
    # what verify(h, x) computes per its contract, with parse(render(...)) = fields (C07) and ab64_decode(ab64_encode(s)) = s (C12)
    def verify(x):
        return h == RENDER(r, AB(ABD(AB(salt))), AB(KDF(name, x, ABD(AB(salt)), r)))
    inv = [ABD(AB(salt)) == salt, r >= 1, z3.Length(salt) > 0]
    inj_render = z3.ForAll([z3.Int("a"), z3.String("b"), z3.String("c"), z3.Int("d"), z3.String("e"), z3.String("f")],
                           z3.Implies(RENDER(z3.Int("a"), z3.String("b"), z3.String("c")) == RENDER(z3.Int("d"), z3.String("e"), z3.String("f")),
                                      z3.And(z3.Int("a") == z3.Int("d"), z3.String("b") == z3.String("e"), z3.String("c") == z3.String("f"))))
    inj_ab = z3.ForAll([z3.String("x"), z3.String("y")], z3.Implies(AB(z3.String("x")) == AB(z3.String("y")), z3.String("x") == z3.String("y")))
    return [
        ("verify(hash(s), s) is True", inv, verify(secret)),
        ("another secret verifies only on a PBKDF2 collision", inv + [inj_render, inj_ab, verify(other)], KDF(name, other, salt, r) == KDF(name, secret, salt, r)),
    ]


LEMMAS = [Lemma("libpass-pbkdf2-roundtrip", _roundtrip, "over the contracts of PBKDF2SHAHandler.hash / verify, parse o render = id (C07), ab64 decode o encode = id (C12)")]

MUTANTS = [
    ("libpass pbkdf2: verify recomputes with the configured cost", P, "            secret=secret, salt=ab64_decode(hash_info.salt), rounds=hash_info.rounds", "            secret=secret, salt=ab64_decode(hash_info.salt), rounds=self._rounds", "refute", "PBKDF2SHAHandler.verify"),
    ("libpass pbkdf2: unparsable strings need no update", P, "        if not hash_info:\n            return True\n        return hash_info.rounds != self._rounds", "        if not hash_info:\n            return False\n        return hash_info.rounds != self._rounds", "refute", "PBKDF2SHAHandler.needs_update"),
    ("libpass pbkdf2: salt rendered raw", P, "            salt=ab64_encode(salt).decode(\"ascii\"),", "            salt=salt.decode(\"ascii\"),", "refute", "PBKDF2SHAHandler.hash"),
]


# ---- libpass BcryptHasher / BcryptSHA256Hasher ---------------------------------------------------------------------------
BP = "libpass/hashers/bcrypt.py"
HASHPW = z3.Function("bcrypt.hashpw", S, S, S)          # (password, salt setting) -> '$2b$rr$' + salt22 + hash31
CHECKPW = z3.Function("bcrypt.checkpw", S, S, z3.BoolSort())
PREP = z3.Function("b64(hmac_sha256(key, msg))", S, S, S)  # (salt text bytes, secret)
LAST = z3.Function("text after the last '$'", S, S)
BINFO = {k: z3.Function(f"bcrypt_record.{k}", S, S if k != "rounds" else z3.IntSort()) for k in ("prefix", "salt", "hash", "rounds")}
BRENDER = z3.Function("BcryptHashInfo.as_str", S, z3.IntSort(), S, S, S)
PHCR = z3.Function("BcryptSHA256PHCV2.as_str", S, z3.IntSort(), S, S, S)  # (type, rounds, hash, salt)


def _b_setup(it, args):
    self = args["self"]
    g = it.genv.vars
    is_rec = z3.Function("is a bcrypt record", S, z3.BoolSort())
    phc = {"ok": z3.Bool("hash is a bcrypt-sha256 PHC record"), "type": z3.String("phc.type"), "salt": z3.String("phc.salt"), "hash": z3.String("phc.hash"), "rounds": z3.Int("phc.rounds")}

    def hashpw(i, a, k):
        r = SStr(HASHPW(i.to_z3(a[0]), i.to_z3(a[1])), "bytes")
        i.run.assume(i.all_codes_below(r.e, 128))
        return r

    def inspect_b(i, a, k):
        h = i.to_z3(a[0])
        if i.run.branch(is_rec(h)):
            return SObj(i.run.fresh("bcrypt info"), fresh=True, fields={"prefix": SStr(BINFO["prefix"](h), "str"), "salt": SStr(BINFO["salt"](h), "str"), "hash": SStr(BINFO["hash"](h), "str"), "rounds": SInt(BINFO["rounds"](h))})
        return None

    def inspect_p(i, a, k):
        if i.run.branch(phc["ok"]):
            return SObj(i.run.fresh("phc info"), fresh=True, fields={"type": SStr(phc["type"], "str"), "salt": SStr(phc["salt"], "str"), "hash": SStr(phc["hash"], "str"), "rounds": SInt(phc["rounds"])})
        return None

    def prep(i, a, k):
        secret = a[0] if a else k.get("secret")
        salt = k.get("salt", a[1] if len(a) > 1 else None)
        return SStr(PREP(_as_bytes(i, salt), _as_bytes(i, secret)), "bytes")

    def new_binfo(i, a, k):
        o = SObj(i.run.fresh("BcryptHashInfo"), fresh=True, fields=dict(k))
        o.fields["as_str"] = SStub(lambda i2, a2, k2: SStr(BRENDER(i2.to_z3(k["prefix"]), i2.to_z3(k["rounds"], "int"), i2.to_z3(k["salt"]), i2.to_z3(k["hash"])), "str"), "as_str")
        return o

    def new_phc(i, a, k):
        o = SObj(i.run.fresh("PHC"), fresh=True, fields=dict(k))
        o.fields["as_str"] = SStub(lambda i2, a2, k2: SStr(PHCR(i2.to_z3(k["type"]), i2.to_z3(k["rounds"], "int"), i2.to_z3(k["hash"]), i2.to_z3(k["salt"])), "str"), "as_str")
        i.run.ghost["phc_args"] = dict(k)
        return o

    g["bcrypt"] = SObj("bcrypt package", fields={
        "hashpw": SStub(hashpw, "bcrypt.hashpw"),
        "checkpw": SStub(lambda i, a, k: SBool(CHECKPW(i.to_z3(k.get("password", a[0] if a else None)), i.to_z3(k.get("hashed_password", a[1] if len(a) > 1 else None)))), "bcrypt.checkpw"),
        "gensalt": SStub(lambda i, a, k: SStr(z3.String("generated bcrypt salt setting"), "bytes"), "bcrypt.gensalt"),
    })
    g["inspect_bcrypt_hash"] = SStub(inspect_b, "inspect_bcrypt_hash (C07)")
    g["inspect_phc"] = SStub(inspect_p, "inspect_phc (C07)")
    g["BcryptHashInfo"] = SStub(new_binfo, "BcryptHashInfo(...)")
    g["BcryptSHA256PHCV2"] = SStub(new_phc, "BcryptSHA256PHCV2(...)")
    g["Panic"] = __import__("pyvc.symexec", fromlist=["exc_class"]).exc_class("RuntimeError")
    self.fields["_prepare_secret"] = SStub(prep, "_prepare_secret (HMAC-SHA256 keyed with the salt text, base64)")
    it.run.ghost.update({"phc": phc, "is_rec": is_rec})
    return {"phc_ok": SBool(phc["ok"]), "phc_rounds": SInt(phc["rounds"])}


def _prep_capture(it, args):
    """wrap _prepare_secret so that the key it was given is recorded"""
    _b_setup(it, args)
    self = args["self"]
    inner = self.fields["_prepare_secret"]

    def prep(i, a, k):
        salt = k.get("salt", a[1] if len(a) > 1 else None)
        i.run.ghost["hmac_key"] = _as_bytes(i, salt)
        i.run.ghost["hmac_key_value"] = i.resolve(salt)
        return inner.fn(i, a, k)

    self.fields["_prepare_secret"] = SStub(prep, "_prepare_secret")
    # salt.rsplit(b"$")[-1]: modelled by the engine's own split; the contract only needs that verify() and hash() key the HMAC alike
    return {"phc_ok": SBool(it.run.ghost["phc"]["ok"]), "phc_rounds": SInt(it.run.ghost["phc"]["rounds"])}


def _bsha_replay():
    """executable specification: a record verifies iff bcrypt.checkpw(b64(HMAC-SHA256(key = the record's SALT FIELD, secret)),
    '$type$rounds$' + salt field + digest field); records obtained from a genuine one by moving the salt/digest separator
    (same concatenation, another salt field) are searched"""
    from pyvc.replay import py_replay
    ref = """
import base64, hashlib, hmac, re, bcrypt
from libpass.hashers.bcrypt import BcryptSHA256Hasher
H = BcryptSHA256Hasher(rounds=4)
GOOD = H.hash('pw')
def ref(secret, record):
    m = re.fullmatch(r'\\$bcrypt-sha256\\$v=2,t=(2[aby]),r=(\\d{1,2})\\$([./A-Za-z0-9]{11,64})\\$([./A-Za-z0-9]{16,86})', record)
    if not m:
        return False
    key = base64.b64encode(hmac.new(m.group(3).encode(), secret.encode(), hashlib.sha256).digest())
    try:
        return bcrypt.checkpw(key, ('$%s$%02d$%s%s' % (m.group(1), int(m.group(2)), m.group(3), m.group(4))).encode())
    except ValueError:
        return False
def moved(k):
    head, salt, dig = GOOD.rsplit('$', 2)
    both = salt + dig
    return head + '$' + both[:22 + k] + '$' + both[22 + k:]
"""
    return py_replay(ref, "rec = moved(V['shift']); r = (H.verify(secret='pw', hash=rec), ref('pw', rec))", "exc is None and r[0] == r[1]", {"shift": 0},
                     search=lambda v: [dict(v, shift=k) for k in (-3, -2, -1, 0, 1, 2, 3, 8)])


BSELF = Obj(cls=(BP, "BcryptSHA256Hasher"), fields={"_rounds": Int(4, 31), "prefixes": (b"2b", b"2a", b"2y")})
CONTRACTS += [
    Contract(
        "libpass.BcryptSHA256Hasher.verify", f"{BP}::BcryptSHA256Hasher.verify",
        params={"self": BSELF, "hash": Str(), "secret": Bytes()},
        setup=_prep_capture,
        ensures=[("False for anything that is not a bcrypt-sha256 record; otherwise bcrypt.checkpw(b64(HMAC-SHA256(key = the record's salt text, secret)), '$type$rounds$salt+hash' rebuilt from the record)",
                  lambda it, env: z3.And(
                      z3.Implies(z3.Not(it.run.ghost["phc"]["ok"]), z3.Not(it.to_zbool(it.truth(env.lookup("result"))))),
                      z3.Implies(it.run.ghost["phc"]["ok"], it.to_zbool(it.truth(env.lookup("result"))) == CHECKPW(
                          PREP(U8(it.run.ghost["phc"]["salt"]), _as_bytes(it, env.lookup("secret"))),
                          U8(BRENDER(it.run.ghost["phc"]["type"], it.run.ghost["phc"]["rounds"], it.run.ghost["phc"]["salt"], it.run.ghost["phc"]["hash"]))))))],
        replay=_bsha_replay(),
        descr="every string, every secret",
    ),
    Contract(
        "libpass.BcryptSHA256Hasher.needs_update", f"{BP}::BcryptSHA256Hasher.needs_update",
        params={"self": BSELF, "hash": Str()},
        setup=_b_setup,
        ensures=[("an update is asked exactly for foreign strings and for records whose cost differs from the configured one", "result == (not phc_ok or phc_rounds != self._rounds)")],
    ),
    Contract(
        "libpass.BcryptHasher.verify", f"{BP}::BcryptHasher.verify",
        params={"self": Obj(cls=(BP, "BcryptHasher"), fields={"_rounds": Int(4, 31), "prefix": b"2b"}), "hash": Str(), "secret": Bytes()},
        setup=_b_setup,
        ensures=[("False for anything that is not a bcrypt record, else bcrypt.checkpw(secret, hash)",
                  lambda it, env: it.to_zbool(it.truth(env.lookup("result"))) == z3.And(it.run.ghost["is_rec"](it.to_z3(env.lookup("hash"))), CHECKPW(it.to_z3(env.lookup("secret")), U8(it.to_z3(env.lookup("hash"))))))],
    ),
]
MUTANTS += [
    ("libpass bcrypt-sha256: verify keys the HMAC with the digest field", BP, "            password=self._prepare_secret(secret, info.salt),", "            password=self._prepare_secret(secret, info.hash),", "refute", "BcryptSHA256Hasher.verify"),
    ("libpass bcrypt: verify skips identification", BP, "        if not self.identify(hash):\n            return False\n        return bcrypt.checkpw(", "        return bcrypt.checkpw(", "refute", "BcryptHasher.verify"),
]


# ---- libpass' str/bytes helpers: a bytes hash is read strictly (no byte is dropped on the way to the parser) --------------------
UB = "libpass/_utils/bytes.py"
CONTRACTS += [
    Contract(
        "libpass.as_str[bytes]", f"{UB}::as_str",
        params={"value": Bytes()},
        raises={"UnicodeDecodeError": None},
        ensures=[("a bytes value is decoded strictly: the text encodes back to exactly the bytes given (undecodable input raises, nothing is skipped)", lambda it, env: U8(it.to_z3(env.lookup("result"))) == it.to_z3(env.lookup("value")))],
        descr="every byte string",
    ),
    Contract(
        "libpass.as_str[text]", f"{UB}::as_str", params={"value": Str()},
        ensures=[("text passes through unchanged", "result == value")],
    ),
    Contract(
        "libpass.as_bytes[text]", f"{UB}::as_bytes", params={"value": Str()},
        ensures=[("text is encoded as UTF-8", lambda it, env: it.to_z3(env.lookup("result")) == U8(it.to_z3(env.lookup("value"))))],
    ),
]
MUTANTS.append(("libpass as_str drops undecodable bytes", UB, 'return value.decode("utf8") if isinstance(value, bytes) else value', 'return value.decode("utf8", errors="ignore") if isinstance(value, bytes) else value', "refute", "as_str"))


# ---- a PBKDF2 record is accepted only under its exact digest name -------------------------------------------------------------
IP = "libpass/inspect/pbkdf2.py"


def _ip_setup(it, args):
    dn = z3.String("digest_name field")
    groups = {"digest_name": SStr(dn, "str"), "rounds": SStr(z3.String("rounds field"), "str"), "salt": SStr(z3.String("salt field"), "str"), "hash": SStr(z3.String("hash field"), "str")}
    matched = z3.Bool("regex matches")

    def fullmatch(i, a, k):
        if i.run.branch(matched):
            return SObj("match", fields={"group": SStub(lambda i2, a2, k2: groups[i2.resolve(a2[0])], "match.group")})
        return None

    made = []

    def new(i, a, k):
        made.append(dict(k))
        return SObj(i.run.fresh("info"), fresh=True, fields=dict(k))

    cls = args["cls"]
    cls.fields.update({"REGEX": SObj("REGEX", fields={"fullmatch": SStub(fullmatch, "REGEX.fullmatch")}), "DIGEST_NAME": "pbkdf2-sha256"})
    it.genv.vars["new.*"] = None
    it.run.ghost.update({"dn": dn, "matched": matched, "made": made})
    return None


CONTRACTS.append(Contract(
    "libpass.inspect_pbkdf2_hash", f"{IP}::inspect_pbkdf2_hash",
    params={"hash": Str(), "cls": Obj(is_class=True)},
    setup=_ip_setup,
    globals={"new.*": SStub(lambda it, a, k: SObj(it.run.fresh("info"), fresh=True, fields=dict(k)), "cls(...)")},
    raises={"ValueError": None},
    ensures=[("a record is returned only when the digest name field EQUALS the class's name (a shorter name such as 'pbkdf2' is another format), carrying the parsed fields",
              lambda it, env: z3.Implies(z3.BoolVal(it.resolve(env.lookup("result")) is not None), z3.And(it.run.ghost["matched"], it.run.ghost["dn"] == z3.StringVal("pbkdf2-sha256"))))],
    descr="every string; regular expression abstract (fields arbitrary)",
))
MUTANTS.append(("libpass pbkdf2: digest name compared by substring", IP, "    if digest_name != cls.DIGEST_NAME:", "    if digest_name not in cls.DIGEST_NAME:", "refute", "inspect_pbkdf2_hash"))


# ---- libpass cost validation: "every cost" -- both ends of the documented range are accepted ----
CONTRACTS.append(Contract(
    "libpass.validate_rounds", "libpass/_utils/validation.py::validate_rounds",
    params={"rounds": Int(), "min": Int(), "max": Int()},
    raises_iff={"ValueError": "rounds < min or rounds > max"},
    ensures=[("inside the inclusive range nothing happens", "result is None")],
    replay=__import__("pyvc.replay", fromlist=["py_replay"]).py_replay(
        "from libpass._utils.validation import validate_rounds\ndef attempt(r, lo, hi):\n    try:\n        validate_rounds(r, lo, hi)\n        return True\n    except ValueError:\n        return False",
        "r = (attempt(V['rounds'], 1000, 999999999), 1000 <= V['rounds'] <= 999999999)", "exc is None and r[0] == r[1]", {"rounds": 999999999},
        search=lambda v: [dict(v, rounds=x) for x in (999, 1000, 1001, 999999998, 999999999, 1000000000)]),
    descr="all integers",
))
MUTANTS += [
    ("libpass validate_rounds: half-open range", "libpass/_utils/validation.py", "    if rounds < min or rounds > max:", "    if rounds < min or rounds >= max:", "refute", "validate_rounds"),
]
