"""C10, continued: _CryptConfig._init_options -- the internal option maps are exactly the source items, a later item
for the same slot replaces the earlier one (this is what makes update() / copy(**kwds) / using() "replace exactly the given keys":
they overlay the new items after the old ones), and unrelated slots do not interfere."""
import z3

from pyvc.contract import Bool, Const, Contract, Obj, Str, Union
from pyvc.values import SDict, SObj, SStr, SStub

C = "passlib/context.py"


def _setup(items):
    """items: list of ((cat, scheme, key), value-name)"""
    def setup(it, args):
        vals = {}
        src = {}
        for (cat, scheme, key), vname in items:
            vals[vname] = Bool().make(it, vname) if key == "truncate_error" else SStr(z3.String(vname), "str")
            src[(cat, scheme, key)] = vals[vname]
        self = args["self"]
        self.fields["_norm_context_option"] = SStub(lambda i, a, k: (a[1], a[2]), "_norm_context_option (identity here; under its own checks)")
        args["source"] = SDict(src)
        it.run.ghost["vals"] = vals
        return dict(vals)

    return setup


def _slot(it, env, scheme, cat, key):
    so = it.resolve(env.lookup("self")).fields["_scheme_options"]
    try:
        return it.resolve(it.resolve(so.items[scheme]).items[cat]).items[key]
    except KeyError:
        return None


def _eq(it, a, b):
    if a is None:
        return z3.BoolVal(False)
    return it.to_zbool(it.truth(it.cmp_vals("==", a, b)))


G = {"warn": SStub(lambda i, a, k: None, "warn")}
CASES = [
    ("global option given as all__truncate_error then as truncate_error (update overlay): the later one wins",
     [((None, "all", "truncate_error"), "old"), ((None, None, "truncate_error"), "new")],
     lambda it, env: _eq(it, _slot(it, env, "all", None, "truncate_error"), it.run.ghost["vals"]["new"])),
    ("global option given as truncate_error then as all__truncate_error: the later one wins",
     [((None, None, "truncate_error"), "old"), ((None, "all", "truncate_error"), "new")],
     lambda it, env: _eq(it, _slot(it, env, "all", None, "truncate_error"), it.run.ghost["vals"]["new"])),
    ("scheme option and global option live in different slots",
     [((None, "des_crypt", "truncate_error"), "a"), ((None, None, "truncate_error"), "b"), (("admin", "des_crypt", "truncate_error"), "c")],
     lambda it, env: z3.And(_eq(it, _slot(it, env, "des_crypt", None, "truncate_error"), it.run.ghost["vals"]["a"]), _eq(it, _slot(it, env, "all", None, "truncate_error"), it.run.ghost["vals"]["b"]),
                            _eq(it, _slot(it, env, "des_crypt", "admin", "truncate_error"), it.run.ghost["vals"]["c"]))),
    ("context options: one value per (key, category); categories are collected",
     [((None, None, "default"), "d0"), (("admin", None, "default"), "d1")],
     lambda it, env: z3.And(_eq(it, it.resolve(it.resolve(env.lookup("self")).fields["_context_options"].items["default"]).items[None], it.run.ghost["vals"]["d0"]),
                            _eq(it, it.resolve(it.resolve(env.lookup("self")).fields["_context_options"].items["default"]).items["admin"], it.run.ghost["vals"]["d1"]),
                            z3.BoolVal(it.resolve(env.lookup("self")).fields["categories"] == ("admin",)))),
]
CONTRACTS = []
for k, (title, items, post) in enumerate(CASES):
    CONTRACTS.append(Contract(
        f"_CryptConfig._init_options[{k}]", f"{C}::_CryptConfig._init_options",
        params={"self": Obj(cls=(C, "_CryptConfig")), "source": Const(None)},
        setup=_setup(items), globals=G,
        ensures=[(title, post)],
        descr="symbolic option values, the listed source items in this order",
    ))

MUTANTS = [
    ("_init_options: the first value seen for an option slot wins", C, "                    else:\n                        option_map[key] = value", "                    else:\n                        option_map.setdefault(key, value)", "refute", "_init_options"),
    ("_init_options: category options stored under the default category", C, "                        category_map[cat] = {key: value}", "                        category_map[None] = {key: value}", "refute", "_init_options"),
]
