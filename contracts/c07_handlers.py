"""C07, handler level: from_string / to_string of concrete handler classes against the documented string shapes.

A constructor stub records the keyword arguments (the validators behind it are C09's contracts); the contracts say
which fields a string of the documented shape is split into, and which string a record is rendered to; the lemmas
compose them (parse(render(fields)) == fields)."""
import z3

from contracts.trusted import COMMON
from pyvc.contract import Bool, Const, Contract, Int, Lemma, Obj, Opt, Str
from pyvc.values import SObj, SStr, SStub


def _new_instance(it, args, kwargs):
    cls = args[0]
    inst = SObj(it.run.fresh(f"new {cls.name}"), cls=cls.cls, fresh=True)
    inst.parent = cls
    inst.fields["__kwds__"] = tuple(sorted(kwargs))
    for k, v in kwargs.items():
        inst.fields[k] = v
    return inst


G = dict(COMMON)
G["new.*"] = SStub(_new_instance, "constructor", trusted="cls(**kwds) stores the validated keywords (validators: C09)")
NODOLLAR = "'$' not in {0}"
DIGITS = "{0}.isdigit() and not ({0}.startswith('0') and {0} != '0')"
S2 = "passlib/handlers/sha2_crypt.py"


def cat(it, args, *parts):
    return SStr(z3.Concat(*[z3.StringVal(p) if isinstance(p, str) and p not in args else it.to_z3(args[p]) for p in parts]), "str")


CONTRACTS = []
for cname, ident in (("sha256_crypt", "$5$"), ("sha512_crypt", "$6$")):
    cls = Obj(cls=(S2, cname), is_class=True)
    base = dict(globals=G, raises={}, split_limit=3, canary=True)
    CONTRACTS += [
        Contract(f"{cname}.from_string[explicit rounds, digest]", f"{S2}::_SHA2_Common.from_string",
                 params={"cls": cls, "hash": Const(None), "R": Str(), "S": Str(), "C": Str()},
                 setup=lambda it, a, _i=ident: {"hash": cat(it, a, _i, "rounds=", "R", "$", "S", "$", "C")},
                 requires=[NODOLLAR.format("R"), NODOLLAR.format("S"), NODOLLAR.format("C"), "len(C) > 0", DIGITS.format("R")],
                 ensures=[("fields of ident + 'rounds=' + R + '$' + S + '$' + C", "result.rounds == int(R) and result.salt == S and result.checksum == C and result.implicit_rounds is False"),
                          ("the digest reaches the constructor together with salt and rounds: their validators are strict exactly when a digest is present (C08)", "'checksum' in result.__kwds__")], **base),
        Contract(f"{cname}.from_string[explicit rounds, config]", f"{S2}::_SHA2_Common.from_string",
                 params={"cls": cls, "hash": Const(None), "R": Str(), "S": Str()},
                 setup=lambda it, a, _i=ident: {"hash": cat(it, a, _i, "rounds=", "R", "$", "S")},
                 requires=[NODOLLAR.format("R"), NODOLLAR.format("S"), DIGITS.format("R")],
                 ensures=[("fields of ident + 'rounds=' + R + '$' + S", "result.rounds == int(R) and result.salt == S and result.checksum is None and result.implicit_rounds is False")], **base),
        Contract(f"{cname}.from_string[implicit rounds, digest]", f"{S2}::_SHA2_Common.from_string",
                 params={"cls": cls, "hash": Const(None), "S": Str(), "C": Str()},
                 setup=lambda it, a, _i=ident: {"hash": cat(it, a, _i, "S", "$", "C")},
                 requires=[NODOLLAR.format("S"), NODOLLAR.format("C"), "len(C) > 0", "not S.startswith('rounds=')"],
                 ensures=[("fields of ident + S + '$' + C: 5000 implicit rounds", "result.rounds == 5000 and result.salt == S and result.checksum == C and result.implicit_rounds is True"),
                          ("the digest reaches the constructor together with salt and rounds (C08)", "'checksum' in result.__kwds__")], **base),
        Contract(f"{cname}.from_string[implicit rounds, config]", f"{S2}::_SHA2_Common.from_string",
                 params={"cls": cls, "hash": Const(None), "S": Str()},
                 setup=lambda it, a, _i=ident: {"hash": cat(it, a, _i, "S")},
                 requires=[NODOLLAR.format("S"), "not S.startswith('rounds=')"],
                 ensures=[("fields of ident + S", "result.rounds == 5000 and result.salt == S and result.checksum is None and result.implicit_rounds is True")], **base),
        Contract(f"{cname}.from_string[zero-padded rounds]", f"{S2}::_SHA2_Common.from_string",
                 params={"cls": cls, "hash": Const(None), "R": Str(), "S": Str(), "C": Str()},
                 setup=lambda it, a, _i=ident: {"hash": cat(it, a, _i, "rounds=", "R", "$", "S", "$", "C")},
                 requires=[NODOLLAR.format("R"), NODOLLAR.format("S"), NODOLLAR.format("C"), "R.startswith('0') and R != '0'"],
                 globals=G, raises={"ValueError": None}, split_limit=3,
                 ensures=[("a zero-padded rounds field is refused", "False")]),
        Contract(f"{cname}.to_string", f"{S2}::_SHA2_Common.to_string",
                 params={"self": Obj(cls=(S2, cname), fields={"rounds": Int(lo=0), "salt": Str(), "checksum": Opt(Str()), "implicit_rounds": Bool()})},
                 globals=G,
                 ensures=[("ident + ['rounds=' + str(rounds) + '$'] + salt + '$' + (checksum or ''); the rounds field is omitted only for implicit 5000",
                           f"result == ('{ident}' + self.salt + '$' + ('' if self.checksum is None else self.checksum) if (self.rounds == 5000 and self.implicit_rounds) else "
                           f"'{ident}rounds=' + str(self.rounds) + '$' + self.salt + '$' + ('' if self.checksum is None else self.checksum))")]),
    ]

M5 = "passlib/handlers/md5_crypt.py"
for cname, ident in (("md5_crypt", "$1$"), ("apr_md5_crypt", "$apr1$")):
    cls = Obj(cls=(M5, cname), is_class=True)
    CONTRACTS += [
        Contract(f"{cname}.from_string[digest]", f"{M5}::_MD5_Common.from_string",
                 params={"cls": cls, "hash": Const(None), "S": Str(), "C": Str()},
                 setup=lambda it, a, _i=ident: {"hash": cat(it, a, _i, "S", "$", "C")},
                 requires=[NODOLLAR.format("S"), NODOLLAR.format("C"), "len(C) > 0"], globals=G, raises={}, split_limit=2,
                 ensures=[("fields of ident + S + '$' + C", "result.salt == S and result.checksum == C")]),
        Contract(f"{cname}.from_string[config]", f"{M5}::_MD5_Common.from_string",
                 params={"cls": cls, "hash": Const(None), "S": Str()},
                 setup=lambda it, a, _i=ident: {"hash": cat(it, a, _i, "S")},
                 requires=[NODOLLAR.format("S")], globals=G, raises={}, split_limit=2,
                 ensures=[("fields of ident + S", "result.salt == S and result.checksum is None")]),
        Contract(f"{cname}.to_string", f"{M5}::_MD5_Common.to_string",
                 params={"self": Obj(cls=(M5, cname), fields={"salt": Str(), "checksum": Opt(Str())})}, globals=G,
                 ensures=[("ident + salt [+ '$' + checksum]", f"result == ('{ident}' + self.salt + '$' + self.checksum if (self.checksum is not None and len(self.checksum) > 0) else '{ident}' + self.salt)")]),
    ]

S1 = "passlib/handlers/sha1_crypt.py"
_cls = Obj(cls=(S1, "sha1_crypt"), is_class=True)
CONTRACTS += [
    Contract("sha1_crypt.from_string[digest]", f"{S1}::sha1_crypt.from_string",
             params={"cls": _cls, "hash": Const(None), "R": Str(), "S": Str(), "C": Str()},
             setup=lambda it, a: {"hash": cat(it, a, "$sha1$", "R", "$", "S", "$", "C")},
             requires=[NODOLLAR.format("R"), NODOLLAR.format("S"), NODOLLAR.format("C"), "len(C) > 0", DIGITS.format("R")], globals=G, raises={}, split_limit=3,
             ensures=[("fields of '$sha1$' + R + '$' + S + '$' + C", "result.rounds == int(R) and result.salt == S and result.checksum == C")]),
    Contract("sha1_crypt.from_string[config]", f"{S1}::sha1_crypt.from_string",
             params={"cls": _cls, "hash": Const(None), "R": Str(), "S": Str()},
             setup=lambda it, a: {"hash": cat(it, a, "$sha1$", "R", "$", "S")},
             requires=[NODOLLAR.format("R"), NODOLLAR.format("S"), DIGITS.format("R")], globals=G, raises={}, split_limit=3,
             ensures=[("fields of '$sha1$' + R + '$' + S", "result.rounds == int(R) and result.salt == S and result.checksum is None")]),
    Contract("sha1_crypt.to_string", f"{S1}::sha1_crypt.to_string",
             params={"self": Obj(cls=(S1, "sha1_crypt"), fields={"rounds": Int(lo=0), "salt": Str(), "checksum": Opt(Str())}), "config": Bool()}, globals=G,
             ensures=[("'$sha1$' + str(rounds) + '$' + salt [+ '$' + checksum unless config]",
                       "result == '$sha1$' + str(self.rounds) + '$' + self.salt + ('$' + self.checksum if (not config and self.checksum is not None and len(self.checksum) > 0) else '')")]),
]

DC = "passlib/handlers/des_crypt.py"
CONTRACTS += [
    Contract("des_crypt.from_string", f"{DC}::des_crypt.from_string",
             params={"cls": Obj(cls=(DC, "des_crypt"), is_class=True), "hash": Const(None), "S": Str(), "C": Str()},
             setup=lambda it, a: {"hash": cat(it, a, "S", "C")},
             requires=["len(S) == 2"], globals=G, raises={},
             ensures=[("first two characters are the salt, the rest the digest (None when empty)", "result.salt == S and (result.checksum == C if len(C) > 0 else result.checksum is None)")]),
    Contract("des_crypt.to_string", f"{DC}::des_crypt.to_string",
             params={"self": Obj(cls=(DC, "des_crypt"), fields={"salt": Str(), "checksum": Opt(Str())})}, globals=G,
             ensures=[("salt + (checksum or '')", "result == self.salt + ('' if self.checksum is None else self.checksum)")]),
]


def _sha2_roundtrip():
    n = z3.Int("n")
    s, c = z3.Strings("salt chk")
    R = z3.IntToStr(n)
    pre = [n >= 0, z3.Not(z3.Contains(s, "$")), z3.Not(z3.Contains(c, "$")), z3.Length(c) > 0]
    return [
        ("explicit: str(rounds) is '$'-free", pre, z3.Not(z3.Contains(R, "$"))),
        ("explicit: int(str(rounds)) == rounds", pre, z3.StrToInt(R) == n),
        ("explicit: str(rounds) is non-empty", pre, z3.Length(R) > 0),
        ("explicit: str(rounds) has no leading zero unless it is '0'", pre, z3.Or(R == z3.StringVal("0"), z3.Not(z3.PrefixOf("0", R)))),
        ("implicit: a salt from the hash64 alphabet never starts with 'rounds=' ('=' is not in the alphabet)", [z3.Not(z3.Contains(s, "="))], z3.Not(z3.PrefixOf("rounds=", s))),
    ]


LEMMAS = [Lemma("sha2-crypt-roundtrip", _sha2_roundtrip, "to_string output satisfies from_string's precondition and decodes to the same fields")]
