#!/usr/bin/env python3
"""Confirm and store one round of seeded changes written by sub-agents.
Usage: seed_round.py <out dir with <Cxx>/patch_{A,B}.diff, demo_{A,B}.py, meta.json> <tagA> <tagB> [--jobs N] [Cxx ...]
For each change, on a scratch copy of /repo (never /repo itself): the patch applies; the demonstration exits 1 with it and 0
without it; every stable_pass test of the pinned suite still passes (tools/baseline_check.py). Confirmed changes are stored
as /verif/seeded/<Cxx>-<tag>/{patch.diff,demo.py,meta.json}; rejected ones are listed with the reason."""
import concurrent.futures as cf, json, os, shutil, subprocess, sys
V = os.path.dirname(os.path.dirname(os.path.abspath(__file__)))
args = sys.argv[1:]
jobs = 4
if "--jobs" in args: i = args.index("--jobs"); jobs = int(args[i + 1]); del args[i:i + 2]
out, tagA, tagB = args[0], args[1], args[2]
pids = args[3:] or sorted(d for d in os.listdir(out) if os.path.isdir(os.path.join(out, d)))
def sh(cmd, **kw):
    return subprocess.run(cmd, shell=True, capture_output=True, text=True, **kw)
def one(job):
    pid, src_tag, tag = job
    patch = f"{out}/{pid}/patch_{src_tag}.diff"; demo = f"{out}/{pid}/demo_{src_tag}.py"
    if not (os.path.exists(patch) and os.path.exists(demo)):
        return pid, tag, "missing patch or demo", None
    scr = f"/tmp/sr_{pid}_{tag}"
    shutil.rmtree(scr, ignore_errors=True)
    sh(f"rsync -a --exclude .git /repo/ {scr}/")
    try:
        clean = sh(f"cd {scr} && PYTHONPATH={scr} /venv/bin/python {demo}", timeout=900).returncode
        r = sh(f"cd {scr} && patch -p1 -s < {patch}")
        if r.returncode:
            return pid, tag, "patch does not apply: " + (r.stdout + r.stderr)[:200], None
        changed = sh(f"cd {scr} && PYTHONPATH={scr} /venv/bin/python {demo}", timeout=900).returncode
        if not (changed == 1 and clean == 0):
            return pid, tag, f"demonstration exit codes changed={changed} clean={clean} (want 1 / 0)", None
        t = sh(f"cd {V} && python3 tools/baseline_check.py {scr}", timeout=3000)
        line = (t.stdout.strip().splitlines() or ["?"])[0]
        if t.returncode != 0:
            return pid, tag, "pinned suite: " + " | ".join(t.stdout.strip().splitlines()[:4]), None
        return pid, tag, None, {"demo_exit_changed_tree": changed, "demo_exit_clean_tree": clean, "stable_suite": line}
    finally:
        shutil.rmtree(scr, ignore_errors=True)
work = [(p, s, t) for p in pids for s, t in (("A", tagA), ("B", tagB))]
with cf.ThreadPoolExecutor(jobs) as ex:
    for (pid, tag, err, ok), (_, src_tag, _) in zip(ex.map(one, work), work):
        if err:
            print(f"REJECTED {pid}-{tag}: {err}", flush=True)
            continue
        dst = f"{V}/seeded/{pid}-{tag}"
        os.makedirs(dst, exist_ok=True)
        shutil.copy(f"{out}/{pid}/patch_{src_tag}.diff", f"{dst}/patch.diff")
        shutil.copy(f"{out}/{pid}/demo_{src_tag}.py", f"{dst}/demo.py")
        notes = {}
        try:
            m = json.load(open(f"{out}/{pid}/meta.json"))
            notes = m.get(src_tag) or m.get(f"change_{src_tag}") or m.get(src_tag.lower()) or m
        except Exception as e:  # noqa: BLE001
            notes = {"meta.json": f"unreadable: {e}"}
        json.dump({"property": pid, "origin": "independent sub-agent given only the property text and a scratch worktree (round with tags %s/%s)" % (tagA, tagB),
                   "agent_notes": notes, "confirmed_by_me": dict(ok, applies_cleanly=True, how="tools/seed_round.py on a scratch copy of /repo")}, open(f"{dst}/meta.json", "w"), indent=1, default=str)
        print(f"stored {pid}-{tag}: {ok['stable_suite']}", flush=True)
