"""C15, continued: TOTP._from_parsed_uri refuses duplicate query parameters, wherever they occur in a query of any length."""
import z3

from pyvc.contract import Const, Contract, Loop, Obj, Str
from pyvc.symexec import exc_class
from pyvc.values import SAbsIter, SExc, SInt, SMap, SObj, SStr, SStub

T = "passlib/totp.py"
S = z3.StringSort()
PK = z3.Function("param_name", z3.IntSort(), S)
PV = z3.Function("param_value", z3.IntSort(), S)
N = z3.Int("number_of_params")
A_, B_ = z3.Int("a"), z3.Int("b")


def _params(it, initial):
    dom = z3.K(S, z3.BoolVal(False))
    arr = z3.K(S, z3.StringVal(""))
    for k, v in initial.items.items():
        dom = z3.Store(dom, z3.StringVal(k), z3.BoolVal(True))
        arr = z3.Store(arr, z3.StringVal(k), it.to_z3(v) if v is not None else z3.StringVal(""))
    m = SMap(dom, arr, S, lambda e: SStr(e, "str"), "params")
    it.run.ghost["params"] = m
    return m


def _setup(it, args):
    it.run.assume(N >= 0)
    it.genv.vars["parse_qsl"] = SStub(lambda i, a, k: SAbsIter(SInt(N), lambda j: (SStr(PK(i.to_z3(j, "int")), "str"), SStr(PV(i.to_z3(j, "int")), "str")), "parse_qsl(query)"), "parse_qsl")
    it.genv.vars["unquote"] = SStub(lambda i, a, k: a[0], "unquote (identity on this label)")
    args["cls"].fields["_uri_parse_error"] = SStub(lambda i, a, k: SExc(exc_class("ValueError")), "_uri_parse_error")
    return {"a": SInt(A_), "b": SInt(B_), "n": SInt(N)}


def _dom_at(it, k):
    return z3.Select(it.run.ghost["params"].dom, k)


CONTRACTS = [
    Contract(
        "TOTP._from_parsed_uri[a parameter given twice]", f"{T}::TOTP._from_parsed_uri",
        params={"cls": Obj(cls=(T, "TOTP"), is_class=True), "result": Obj(fields={"path": "/user", "query": Str()})},
        setup=_setup,
        local_models={"params": _params},
        requires=[lambda it, env: z3.And(A_ >= 0, A_ < B_, B_ < N, PK(A_) == PK(B_))],
        loops={"_from_parsed_uri#0": Loop(invariant=[lambda it, env: z3.And(it.to_z3(env.lookup("__i0__"), "int") <= B_, z3.Implies(it.to_z3(env.lookup("__i0__"), "int") > A_, _dom_at(it, PK(A_))))],
                                          modifies=["k", "v", "params"])},
        raises={"ValueError": None},
        ensures=[("a query in which some parameter name occurs twice (at any two positions) is never accepted", "False")],
        descr="queries of any length; positions a < b of the repeated name arbitrary; names and values arbitrary strings",
    ),
    Contract(
        "TOTP._from_parsed_uri[a parameter named label]", f"{T}::TOTP._from_parsed_uri",
        params={"cls": Obj(cls=(T, "TOTP"), is_class=True), "result": Obj(fields={"path": "/user", "query": Str()})},
        setup=_setup,
        local_models={"params": _params},
        requires=[lambda it, env: z3.And(A_ >= 0, A_ < N, PK(A_) == z3.StringVal("label"))],
        loops={"_from_parsed_uri#0": Loop(invariant=[lambda it, env: z3.And(it.to_z3(env.lookup("__i0__"), "int") <= A_, _dom_at(it, z3.StringVal("label")))], modifies=["k", "v", "params"])},
        raises={"ValueError": None},
        ensures=[("a 'label' query parameter cannot override the label of the path", "False")],
        descr="queries of any length",
    ),
]

MUTANTS = [
    ("from_uri: duplicate check against lower-cased names only", T, "            if k in params:\n                raise cls._uri_parse_error(f\"duplicate parameter ({k!r})\")\n            params[k] = v\n", "            if k in params:\n                raise cls._uri_parse_error(f\"duplicate parameter ({k!r})\")\n            params[k.lower()] = v\n", "refute", "_from_parsed_uri"),
    ("from_uri: the last value of a repeated parameter wins", T, "            if k in params:\n                raise cls._uri_parse_error(f\"duplicate parameter ({k!r})\")\n", "", "refute", "_from_parsed_uri"),
]


# ---- the label is percent-decoded exactly once --------------------------------------------------------------------------
UQ = z3.Function("unquote", S, S)


def _label_setup(it, args):
    n = {"unquote": 0}

    def unq(i, a, k):
        n["unquote"] += 1
        return SStr(UQ(i.to_z3(a[0])), "str")

    seen = {}

    def adapt(i, a, k):
        seen.update(k)
        return __import__("pyvc.values", fromlist=["SDict"]).SDict({})

    it.genv.vars["unquote"] = SStub(unq, "unquote")
    it.genv.vars["parse_qsl"] = SStub(lambda i, a, k: __import__("pyvc.values", fromlist=["SList"]).SList([]), "parse_qsl (no parameters)")
    cls = args["cls"]
    cls.fields["_uri_parse_error"] = SStub(lambda i, a, k: SExc(exc_class("ValueError")), "_uri_parse_error")
    cls.fields["_adapt_uri_params"] = SStub(adapt, "_adapt_uri_params")
    it.genv.vars["new.*"] = None
    it.run.ghost.update({"n": n, "seen": seen})
    return None


def _label_post(it, env):
    g = it.run.ghost
    # NOTE: the function's parameter is itself called ``result``: the entry value is read from it.entry
    src = it.to_z3(it.resolve(it.entry["result"]).fields["path"])
    once = UQ(z3.SubString(src, 1, z3.Length(src)))
    old = it.spec
    it.spec = True
    try:
        stripped = it.to_z3(it.m_text_strip(SStr(once, "str")))
    finally:
        it.spec = old
    lab = g["seen"].get("label")
    return z3.And(z3.BoolVal(g["n"]["unquote"] == 1), (stripped == z3.StringVal("")) if lab is None else it.to_z3(lab) == stripped)  # a blank label is handed on as None (and refused there)


CONTRACTS.append(Contract(
    "TOTP._from_parsed_uri[label]", f"{T}::TOTP._from_parsed_uri",
    params={"cls": Obj(cls=(T, "TOTP"), is_class=True), "result": Obj(fields={"path": Str(), "query": Str()})},
    setup=_label_setup,
    globals={"new.*": SStub(lambda i, a, k: SObj("TOTP instance", fresh=True), "cls(**kwds)")},
    requires=[lambda it, env: z3.Not(z3.Contains(UQ(z3.SubString(it.to_z3(it.resolve(it.entry["result"]).fields["path"]), 1, z3.Length(it.to_z3(it.resolve(it.entry["result"]).fields["path"])))), z3.StringVal(":")))],
    raises={"ValueError": None},
    ensures=[("the label handed on is the path percent-decoded exactly ONCE (then stripped): a literal '%41' in a label survives", _label_post)],
    descr="every path without an issuer prefix, no query parameters",
))

MUTANTS.append(("from_uri: label percent-decoded a second time", T, "            label = label.strip() or None", "            label = unquote(label).strip() or None", "refute", r"_from_parsed_uri\[label"))


# ---- old-style "issuer:label" path: the issuer taken from the prefix is compared with the issuer= parameter AS IS (to_uri() writes
#      the same issuer in both places, also one with leading / trailing blanks), and is handed on unchanged ----
def _issuer_setup(it, args):
    _label_setup(it, args)
    iss, lab = z3.String("issuer text"), z3.String("label text")
    it.run.assume(z3.And(z3.Not(z3.Contains(iss, z3.StringVal(":"))), z3.Not(z3.Contains(lab, z3.StringVal(":"))), z3.Length(iss) > 0, z3.Length(lab) > 0))
    it.genv.vars["unquote"] = SStub(lambda i, a, k: SStr(z3.Concat(iss, z3.StringVal(":"), lab), "str"), "unquote", trusted="the decoded path is 'issuer:label'")
    from pyvc.values import SList as _SL
    it.genv.vars["parse_qsl"] = SStub(lambda i, a, k: _SL([("issuer", SStr(iss, "str"))]), "parse_qsl", trusted="the query carries issuer=<the same issuer>, as to_uri() writes it")
    it.run.ghost.update({"iss": iss, "lab": lab})
    return None


def _issuer_post(it, env):
    g = it.run.ghost
    got = g["seen"].get("issuer")
    return z3.BoolVal(False) if got is None else it.to_z3(got) == g["iss"]


CONTRACTS.append(Contract(
    "TOTP._from_parsed_uri[issuer prefix and issuer parameter]", f"{T}::TOTP._from_parsed_uri",
    params={"cls": Obj(cls=(T, "TOTP"), is_class=True), "result": Obj(fields={"path": Str(), "query": Str()})},
    setup=_issuer_setup,
    globals={"new.*": SStub(lambda i, a, k: SObj("TOTP instance", fresh=True), "cls(**kwds)")},
    requires=[lambda it, env: z3.And(z3.PrefixOf(z3.StringVal("/"), it.to_z3(it.resolve(it.entry["result"]).fields["path"])), z3.Length(it.to_z3(it.resolve(it.entry["result"]).fields["path"])) > 1)],
    raises={},
    ensures=[("a URI that names the same issuer in the path prefix and in issuer= is accepted whatever blanks the issuer carries, and that issuer is handed on unchanged", _issuer_post)],
    replay=__import__("pyvc.replay", fromlist=["py_replay"]).py_replay(
        "from passlib.totp import TOTP", "t = TOTP(key='GEZDGNBVGY3TQOJQ', issuer=V['issuer'], label='alice'); r = TOTP.from_uri(t.to_uri()).issuer", "exc is None and r == V['issuer']", {"issuer": "Example Org "},
        search=lambda v: [dict(v, issuer=x) for x in ("Example", " Example", "Example Org ", " Café ", "a b")]),
    descr="any issuer and label text without ':'",
))
MUTANTS.append(("from_uri: issuer prefix stripped, issuer parameter not", T, "                issuer, label = label.split(\":\")\n", "                issuer, label = label.split(\":\")\n                issuer = issuer.strip()\n", "refute", r"issuer prefix"))
