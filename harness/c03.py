"""Bounded stand-in for C03: every selectable backend of a hasher gives the same digest, every backend the
host demonstrably supports is reported/selectable/working, and backend switches on one hasher never change
results obtained through another.

Oracles independent of passlib: the host crypt() through ``legacycrypt`` (published test vectors decide
"demonstrably supported"), the ``bcrypt`` package, ``hashlib.scrypt``, hmac/base64 for the bcrypt-sha256
pre-hash.  The digest comparison itself is backend-against-backend (the property), the oracles are an extra.
"""
import os

# builtin bcrypt must be enabled before passlib.handlers.bcrypt looks at the environment
os.environ.setdefault("PASSLIB_BUILTIN_BCRYPT", "1")

import base64
import hashlib
import hmac
import itertools
import time

from common import Group, main, outcome

H64 = "./0123456789ABCDEFGHIJKLMNOPQRSTUVWXYZabcdefghijklmnopqrstuvwxyz"
BCRYPT64 = "./ABCDEFGHIJKLMNOPQRSTUVWXYZabcdefghijklmnopqrstuvwxyz0123456789"

# (password, full hash) published vectors; the host crypt() answering one is what "os_crypt is supported" means
CRYPT_VECTORS = {
    "des_crypt": ("test", "abgOeLfPimXQo"),
    "bsdi_crypt": ("test", "_/...lLDAxARksGCHin."),
    "md5_crypt": ("test", "$1$test$pi/xDtU5WFVRqYS6BMU8X/"),
    "sha1_crypt": ("test", "$sha1$1$Wq3GL2Vp$C8U25GvfHS8qGHimExLaiSFlGkAe"),
    "sha256_crypt": ("Hello world!", "$5$saltstring$5B8vYYiY.CVt1RlTTf8KbXBH3hsxY/GNooZaBBGWEc5"),
    "sha512_crypt": (
        "Hello world!",
        "$6$saltstring$svn8UoSVapNtMuq1ukKS4tPQd8iKwSMHWjl/O817G3uBnIFNjnQJuesI68u4OTLiBFdcbYEdFCoEOfaS35inz1",
    ),
    "bcrypt": ("test", "$2a$04$5BJqKfqMQvV7nS.yUguNcueVirQqDBGaLXSqj.rs.pZPlNR0UX/HK"),
}


def bcrypt64(data):
    """bcrypt's base64 of 16 bytes -> 22 chars (padding bits zero, i.e. a normalised salt)"""
    out, acc, bits = [], 0, 0
    for byte in data:
        acc = (acc << 8) | byte
        bits += 8
        while bits >= 6:
            bits -= 6
            out.append(BCRYPT64[(acc >> bits) & 63])
    if bits:
        out.append(BCRYPT64[(acc << (6 - bits)) & 63])
    return "".join(out)


def base_format(name):
    for pre in ("ldap_", "django_"):
        name = name.removeprefix(pre)
    return name


def family(name):
    b = base_format(name)
    return "bcrypt" if b in ("bcrypt", "bcrypt_sha256") else b


def passwords(tier):
    """(id, password) -- ASCII / UTF-8 multibyte / non-UTF-8 bytes, lengths 0/1/8/9/72/73/200, str and bytes"""
    letters = "aZ3.kQ/9wPl0mX7e" * 16
    out = []
    # 63 / 64 / 65 and 127 / 128 / 129: around the block size of the digests that key an HMAC with the password
    for n in (0, 1, 8, 9, 63, 64, 65, 72, 73, 127, 128, 129, 200):
        out.append((f"ascii{n}", letters[:n]))
    for n in (8, 9, 72, 73):
        out.append((f"ascii{n}b", letters[:n].encode()))
    out += [
        ("ascii-tail8", letters[:8] + "X"),  # differs from ascii9 only past byte 8
        ("ascii-tail72", letters[:72] + "X"),  # differs from ascii73 only past byte 72
        ("utf8-mixed", "pässwörd€\U0001d11e"),
        ("utf8-1", "é"),
        ("utf8-straddle8", "abcdefgé"),  # byte 8 splits the character
        ("utf8-72", "é" * 36),
        ("utf8-straddle72", "a" + "é" * 36),  # byte 72 splits the character
        ("utf8-200", "€" * 66 + "ab"),
        ("utf8-bytes", "pässwörd€".encode()),
        ("nonutf8-1", b"\xff"),
        ("nonutf8-latin1", b"pass\xe9word"),
        ("nonutf8-8", b"\x80abcdefg"),
        ("nonutf8-9", b"abcdefgh\xfe"),
        ("nonutf8-72", b"\xff\xfe" * 36),
        ("nonutf8-73", b"\xff\xfe" * 36 + b"\xc0"),
        ("nonutf8-200", b"\xe9" * 200),
    ]
    if tier != "quick":
        out += [
            ("ascii-space", "correct horse battery staple"),
            ("utf8-cjk", "密码密码"),
            ("utf8-7+2", "abcdefgé".encode()),
            ("nonutf8-trunc", "€".encode()[:2]),
            ("nonutf8-71+", b"a" * 71 + b"\xe9\xe9"),
            ("ascii-96", letters[:96]),
            ("ascii-97", letters[:97]),
        ]
    return out


def is_utf8(pw):
    if isinstance(pw, str):
        return True
    try:
        pw.decode("utf-8")
        return True
    except UnicodeDecodeError:
        return False


def settings_grid(name, rng, tier):
    """list of (id, using-kwds) for a hasher name; cheap costs"""
    base = base_format(name)
    thorough = tier != "quick"

    def h64(n):
        return "".join(rng.choice(H64) for _ in range(n))

    def combine(salts, costs=None, key="rounds"):
        out = []
        for s in salts:
            if costs is None:
                out.append((f"salt={s!r}", {"salt": s}))
            else:
                for c in costs:
                    out.append((f"salt={s!r},{key}={c}", {"salt": s, key: c}))
        return out

    nextra = 4 if thorough else 1
    if base == "des_crypt":
        return combine(["ab", "./", "zz"] + [h64(2) for _ in range(nextra + 1)])
    if base == "bsdi_crypt":
        return combine(["abcd", "...."] + [h64(4) for _ in range(nextra)], [1, 3, 101] + ([2, 5, 21, 725] if thorough else []))  # builtin DES costs ~20 us per round
    if base == "md5_crypt":
        return combine(["", "a", "abcd", "testsalt"] + [h64(rng.randint(1, 8)) for _ in range(nextra)])
    if base == "sha1_crypt":
        return combine(["", "abcdefgh", h64(64)] + [h64(rng.randint(1, 64)) for _ in range(nextra)], [1, 2, 77] + ([3, 1000] if thorough else []))
    if base in ("sha256_crypt", "sha512_crypt"):
        # 5000 is rendered in the implicit-rounds form; 1000+42k+r exercises the block/tail split
        if not thorough:
            fixed = [("saltstring", 1000), ("a", 1043), (h64(16), 5000), ("", 1001), (h64(rng.randint(2, 15)), 1000), (h64(16), 1085)]
            return [(f"salt={s!r},rounds={c}", {"salt": s, "rounds": c}) for s, c in fixed]
        return combine(["", "a", "saltstring", h64(16)] + [h64(rng.randint(1, 16)) for _ in range(nextra)], [1000, 1043, 5000, 1001, 1084, 1999])
    if base == "bcrypt":
        salts = [bcrypt64(bytes(rng.getrandbits(8) for _ in range(16))) for _ in range(2 if thorough else 1)]
        out = []
        for s in ["5BJqKfqMQvV7nS.yUguNcu"] + salts:
            for ident in ("2b", "2a", "2y", "2"):
                out.append((f"salt={s},ident={ident},rounds=4", {"salt": s, "ident": ident, "rounds": 4}))
        out.append((f"salt={salts[0]},rounds=5", {"salt": salts[0], "rounds": 5}))
        return out
    if base == "bcrypt_sha256":
        salts = ["5BJqKfqMQvV7nS.yUguNcu"] + [bcrypt64(bytes(rng.getrandbits(8) for _ in range(16))) for _ in range(2 if thorough else 1)]
        out = [(f"salt={s},rounds=4", {"salt": s, "rounds": 4}) for s in salts]
        if name == "bcrypt_sha256":
            out.append((f"salt={salts[0]},rounds=4,version=1", {"salt": salts[0], "rounds": 4, "version": 1}))
            out.append((f"salt={salts[0]},rounds=5,version=1,ident=2a", {"salt": salts[0], "rounds": 5, "version": 1, "ident": "2a"}))
        return out
    if base == "scrypt":
        out = []
        salts = [b"", b"abc", bytes(rng.getrandbits(8) for _ in range(16))] + ([bytes(rng.getrandbits(8) for _ in range(33))] if thorough else [])
        for s in salts:
            for ln, r, p in [(1, 8, 1), (3, 1, 2), (4, 2, 1)] + ([(2, 3, 3), (5, 8, 1)] if thorough else []):
                out.append((f"salt={s.hex()},ln={ln},r={r},p={p}", {"salt": s, "rounds": ln, "block_size": r, "parallelism": p}))
        out.append(("salt=asciisalt,$7$,ln=2,r=2,p=1", {"salt": b"asciisalt", "rounds": 2, "block_size": 2, "parallelism": 1, "ident": "$7$"}))
        return out
    return None


class Host:
    def __init__(self):
        try:
            import legacycrypt

            self.crypt = legacycrypt.crypt
        except Exception:  # noqa: BLE001
            self.crypt = None
        try:
            import bcrypt as _b

            self.bcrypt = _b if hasattr(_b, "hashpw") else None
        except Exception:  # noqa: BLE001
            self.bcrypt = None
        self.crypt_formats = {}
        for fmt, (pw, vec) in CRYPT_VECTORS.items():
            self.crypt_formats[fmt] = self.raw_crypt(pw, vec) == vec
        try:
            self.hashlib_scrypt = hashlib.scrypt(b"a", salt=b"b", n=2, r=1, p=1, dklen=8) is not None
        except Exception:  # noqa: BLE001
            self.hashlib_scrypt = False
        self.ext_scrypt = outcome(lambda: __import__("scrypt").hash)[0] == "ok"
        self.argon2_cffi = outcome(lambda: __import__("argon2").low_level)[0] == "ok"
        self.argon2pure = outcome(__import__, "argon2pure")[0] == "ok"

    def raw_crypt(self, pw, setting):
        if self.crypt is None:
            return None
        try:
            r = self.crypt(pw, setting)
        except Exception:  # noqa: BLE001
            return None
        if isinstance(r, bytes):
            r = r.decode("ascii", "replace")
        if not r or r[0] in "*:!":
            return None
        return r

    def supports(self, name, backend):
        """True if the host demonstrably supports <backend> for hasher <name>; None = no independent evidence"""
        if backend == "builtin":
            return True
        if backend == "os_crypt":
            return self.crypt_formats.get(family(name), False)
        if backend == "bcrypt":
            return self.bcrypt is not None
        if backend == "stdlib":
            return self.hashlib_scrypt
        if backend == "scrypt":
            return self.ext_scrypt
        if backend == "argon2_cffi":
            return self.argon2_cffi
        if backend == "argon2pure":
            return self.argon2pure
        return None

    def describe(self):
        return {
            "crypt": {k: v for k, v in self.crypt_formats.items()},
            "bcrypt_package": getattr(self.bcrypt, "__version__", None),
            "hashlib_scrypt": self.hashlib_scrypt,
            "scrypt_package": self.ext_scrypt,
            "argon2_cffi": self.argon2_cffi,
            "argon2pure": self.argon2pure,
            "PASSLIB_BUILTIN_BCRYPT": os.environ.get("PASSLIB_BUILTIN_BCRYPT"),
        }


def oracle(host, name, pw, kw, hashed):
    """independent opinion on <hashed> for base (unwrapped) hashers: True / False / None (no opinion)"""
    if name in ("md5_crypt", "sha1_crypt", "sha256_crypt", "sha512_crypt", "des_crypt", "bsdi_crypt"):
        if not host.crypt_formats.get(name) or not is_utf8(pw):
            return None
        text = pw if isinstance(pw, str) else pw.decode("utf-8")
        if "\x00" in text:
            return None
        r = host.raw_crypt(text, hashed)
        return None if r is None else r == hashed
    raw = pw.encode("utf-8") if isinstance(pw, str) else pw
    if name == "bcrypt":
        if host.bcrypt is None or kw.get("ident", "2b") == "2":
            return None
        try:
            return host.bcrypt.hashpw(raw[:72], hashed[:29].encode()) == hashed.encode()
        except Exception:  # noqa: BLE001
            return None
    if name == "bcrypt_sha256":
        if host.bcrypt is None or kw.get("version", 2) != 2:
            return None
        ident = kw.get("ident", "2b")
        pre = base64.b64encode(hmac.new(kw["salt"].encode(), raw, hashlib.sha256).digest())
        try:
            full = host.bcrypt.hashpw(pre, f"${ident}${kw['rounds']:02d}${kw['salt']}".encode()).decode()
        except Exception:  # noqa: BLE001
            return None
        return hashed == f"$bcrypt-sha256$v=2,t={ident},r={kw['rounds']}${kw['salt']}${full[-31:]}"
    if name == "scrypt":
        if not host.hashlib_scrypt or kw.get("ident", "$scrypt$") != "$scrypt$":
            return None
        try:
            dk = hashlib.scrypt(raw, salt=kw["salt"], n=1 << kw["rounds"], r=kw["block_size"], p=kw["parallelism"], dklen=32, maxmem=64 * 1024 * 1024)
        except Exception:  # noqa: BLE001
            return None
        chk = hashed.rsplit("$", 1)[-1]
        try:
            return base64.b64decode(chk + "=" * (-len(chk) % 4)) == dk
        except Exception:  # noqa: BLE001
            return None
    return None


def build(tier, rng):
    from passlib import exc, registry

    quick = tier == "quick"
    host = Host()
    skipped = []
    notes = []

    # ---- discover every registered hasher that offers backends ---------------------------------
    handlers = {}
    for name in registry.list_crypt_handlers():
        try:
            h = registry.get_crypt_handler(name)
        except Exception as err:  # noqa: BLE001
            skipped.append(f"{name}: cannot be loaded ({type(err).__name__})")
            continue
        o = outcome(lambda: getattr(h, "backends", None))  # noqa: B023
        if o[0] == "ok" and o[1]:
            handlers[name] = h

    original = {}
    for name, h in handlers.items():
        o = outcome(h.get_backend)
        original[name] = o[1] if o[0] == "ok" else None

    groups = []
    try:
        groups = _run(tier, rng, quick, host, handlers, original, skipped, notes, exc)
    finally:
        # restore each hasher's original backend
        for name, h in handlers.items():
            if original.get(name):
                outcome(h.set_backend, original[name])
    info = host.describe()
    info["original_backends"] = original
    info["notes"] = notes
    return groups, skipped, info


def _run(tier, rng, quick, host, handlers, original, skipped, notes, exc):
    groups = []

    # =============================================================================================
    # 1. advertised backends: demonstrably supported => has_backend, selectable, hash/verify work
    # =============================================================================================
    g = Group(
        "advertised-backends",
        "BackendMixin.has_backend/set_backend",
        "every registered hasher with a `backends` attribute x every name in it: if the host demonstrably supports it "
        "(crypt() answers the published vector / import works / hashlib.scrypt runs / builtin) then has_backend is True, "
        "set_backend succeeds, get_backend reports it, hash()+verify() run without error",
    )
    available = {}
    for name, h in handlers.items():
        available[name] = []
        for b in tuple(h.backends):
            sup = host.supports(name, b)
            g.case((name, b), nontrivial=bool(sup))
            hb = outcome(h.has_backend, b)
            if not sup:
                if hb == ("ok", True):
                    # selectable without independent evidence: still part of the agreement domain
                    available[name].append(b)
                    notes.append(f"{name}/{b}: reported available though the harness has no independent evidence")
                else:
                    skipped.append(f"{name}/{b}: not supported by this host (has_backend -> {hb[1]!r})")
                continue
            wit = {"hasher": name, "backend": b, "call": f"passlib.hash.{name}.has_backend({b!r})"}
            g.check(hb == ("ok", True), f"has_backend:{name}:{b}", "backend the host demonstrably supports is not reported available", {**wit, "outcome": repr(hb)})
            so = outcome(h.set_backend, b)
            if not g.check(so[0] == "ok", f"set_backend:{name}:{b}", "backend the host demonstrably supports cannot be selected", {**wit, "outcome": repr(so)}):
                continue
            gb = outcome(h.get_backend)
            g.check(gb == ("ok", b), f"get_backend:{name}:{b}", "get_backend() does not report the backend just selected", {**wit, "outcome": repr(gb)})
            grid = settings_grid(name, rng, "quick")
            kw = grid[0][1] if grid else {}
            ho = outcome(lambda: h.using(**kw).hash("test"))  # noqa: B023
            if g.check(ho[0] == "ok" and isinstance(ho[1], str), f"hash-works:{name}:{b}", "hash() fails under a supported backend", {**wit, "using": repr(kw), "outcome": repr(ho)}):
                vo = outcome(h.verify, "test", ho[1])
                g.check(vo == ("ok", True), f"verify-works:{name}:{b}", "verify() of the hash just made fails under a supported backend", {**wit, "hash": ho[1], "outcome": repr(vo)})
                wo = outcome(h.verify, "tesu", ho[1])
                g.check(wo == ("ok", False), f"verify-rejects:{name}:{b}", "verify() accepts a wrong password under this backend", {**wit, "hash": ho[1], "outcome": repr(wo)})
                available[name].append(b)
        if original.get(name):
            outcome(h.set_backend, original[name])
    groups.append(g)

    usable = {n: bs for n, bs in available.items() if bs}
    for n, bs in available.items():
        if not bs:
            skipped.append(f"{n}: no backend available on this host, hasher left out of agreement/switching")

    # =============================================================================================
    # 2. agreement of every ordered pair of available backends
    # =============================================================================================
    g = Group(
        "backend-agreement",
        "HasManyBackends._calc_checksum (all backends)",
        "every hasher with >= 1 available backend x every ordered pair (a, b) of its available backends x passwords "
        "(ASCII / UTF-8 multibyte / non-UTF-8 bytes; str and bytes; lengths 0,1,8,9,72,73,200 and truncation-boundary twins) "
        "x salts (min/max size, fixed and seeded-random) x cheap costs (incl. sha-crypt 5000 implicit, 1000+42k+r, bcrypt idents 2/2a/2b/2y, "
        "scrypt n/r/p, bcrypt_sha256 v1/v2): hash under a == hash under b, verify under b accepts a's hash and rejects it for a "
        "different password; independent oracle (crypt(3), bcrypt package, hashlib.scrypt) agrees where it has an opinion. "
        "builtin bcrypt (0.1 s per call): reduced password/settings subset",
    )
    pws = passwords(tier)
    slow_pw_ids = {"ascii0", "ascii72", "ascii73", "ascii-tail72", "utf8-straddle72", "nonutf8-72", "nonutf8-73", "utf8-mixed", "ascii200"}
    refusals = 0
    t_slow = 0.0
    spent = {}
    for name, backends in usable.items():
        t_name = time.time()
        h = handlers[name]
        grid = settings_grid(name, rng, tier)
        if grid is None:
            skipped.append(f"{name}: no settings grid for this hasher (not in the C03 domain)")
            continue
        if quick and name != base_format(name):
            grid = grid[:3]  # wrappers share the code of the wrapped hasher: fewer settings in the quick tier
        fam = family(name)
        is_bcrypt_family = fam == "bcrypt"
        points = []
        for sid, kw in grid:
            for pid, pw in pws:
                points.append((sid, kw, pid, pw))
        # subset evaluated under the slow pure-python bcrypt
        if is_bcrypt_family:
            budget = (12 if name == "bcrypt" else 3) if quick else (120 if name == "bcrypt" else 30)
            cand = [i for i, p in enumerate(points) if p[2] in slow_pw_ids]
            if base_format(name) == "bcrypt":
                # one point per ident first, then boundary passwords on the first settings
                first = [i for i in cand if points[i][2] == "ascii73"]
                rest = [i for i in cand if points[i][0] == grid[0][0] and i not in first]
                more = [i for i in cand if i not in first and i not in rest]
                order = first[:4] + rest + first[4:] + more
            else:
                order = cand
            slow_idx = set(order[:budget])
        else:
            slow_idx = None

        results = {b: {} for b in backends}
        # pass 1: hash every point under every backend
        for b in backends:
            so = outcome(h.set_backend, b)
            if so[0] != "ok":
                g.fail(f"set_backend:{name}:{b}", "available backend could not be selected again", {"hasher": name, "backend": b, "outcome": repr(so)})
                continue
            for i, (sid, kw, pid, pw) in enumerate(points):
                if b == "builtin" and slow_idx is not None and i not in slow_idx:
                    continue
                t0 = time.time()
                results[b][i] = outcome(lambda: h.using(**kw).hash(pw))  # noqa: B023
                if b == "builtin" and slow_idx is not None:
                    t_slow += time.time() - t0
        # compare every ordered pair
        for a, b in itertools.permutations(backends, 2):
            for i, (sid, kw, pid, pw) in enumerate(points):
                if i not in results[a] or i not in results[b]:
                    continue
                ra, rb = results[a][i], results[b][i]
                g.case((name, a, b, sid, pid))
                wit = {"hasher": name, "backends": [a, b], "password": pw, "using": repr(kw), "got": [repr(ra)[:160], repr(rb)[:160]],
                       "call": f"h=passlib.hash.{name}; h.set_backend(X); h.using(**{kw!r}).hash({pw!r})"}
                if is_bcrypt_family and base_format(name) == "bcrypt" and not is_utf8(pw) and "os_crypt" in (a, b):
                    # documented refusal of passlib's bcrypt os_crypt backend (crypt() takes text only);
                    # the refusal must be the dedicated PasswordValueError, never a different digest
                    r_os = ra if a == "os_crypt" else rb
                    if r_os[0] == "exc":
                        refusals += 1
                        g.check(r_os[1] == "PasswordValueError", f"bcrypt-os_crypt-nonutf8:{name}", "non-UTF-8 password under bcrypt/os_crypt fails with something else than PasswordValueError", wit)
                        continue
                if ra[0] != "ok" or rb[0] != "ok":
                    kind = "nonutf8" if not is_utf8(pw) else "utf8"
                    g.fail(f"hash-error:{name}:{a if ra[0] != 'ok' else b}:{kind}", "hash() raises under one backend (no transparent fallback / backend broken)", wit)
                    continue
                kind = "nonutf8" if not is_utf8(pw) else ("long" if len(pw if isinstance(pw, bytes) else pw.encode()) > 72 else "utf8")
                g.check(ra[1] == rb[1], f"disagree:{name}:{min(a, b)}-{max(a, b)}:{kind}", "two backends give different digests for the same password and settings", wit)
        # independent oracle on one backend's result per point (all are compared with each other above)
        if name == base_format(name):
            for i, (sid, kw, pid, pw) in enumerate(points):
                for b in backends:
                    r = results[b].get(i)
                    if r and r[0] == "ok":
                        op = oracle(host, name, pw, kw, r[1])
                        if op is not None:
                            g.check(op, f"oracle:{name}:{b}", "digest differs from the independent implementation (crypt(3) / bcrypt package / hashlib.scrypt)", {"hasher": name, "backend": b, "password": pw, "using": repr(kw), "hash": r[1]})
                        break
        # pass 2: verify under b the hashes made under a (and reject a different password)
        for b in backends:
            if outcome(h.set_backend, b)[0] != "ok":
                continue
            nslow = 0
            verify_sids = {sid for sid, _ in grid[: (2 if quick else len(grid))]}
            for i, (sid, kw, pid, pw) in enumerate(points):
                if i not in results[b] or sid not in verify_sids:
                    continue
                seen = set()
                for a in backends:
                    ra = results[a].get(i)
                    if a == b or not ra or ra[0] != "ok" or ra[1] in seen:
                        continue
                    if b == "builtin" and slow_idx is not None:
                        nslow += 1
                        if nslow > (2 if quick else 24):
                            continue
                    seen.add(ra[1])
                    vo = outcome(h.verify, pw, ra[1])
                    wit = {"hasher": name, "made_under": a, "verified_under": b, "password": pw, "hash": ra[1], "outcome": repr(vo)}
                    if vo[0] == "exc" and vo[1] == "PasswordValueError" and b == "os_crypt" and base_format(name) == "bcrypt" and not is_utf8(pw):
                        continue
                    g.check(vo == ("ok", True), f"cross-verify:{name}:{a}->{b}", "hash made under one backend does not verify under another", wit)
                    if pid in ("ascii8", "utf8-mixed", "nonutf8-latin1") and not (b == "builtin" and slow_idx is not None):
                        other = ("x" + pw) if isinstance(pw, str) else (b"x" + pw)
                        wo = outcome(h.verify, other, ra[1])
                        if not (wo[0] == "exc" and wo[1] == "PasswordValueError"):
                            g.check(wo == ("ok", False), f"cross-reject:{name}:{a}->{b}", "hash made under one backend verifies a different password under another", {**wit, "other": other, "outcome": repr(wo)})
        if original.get(name):
            outcome(h.set_backend, original[name])
        spent[name] = round(time.time() - t_name, 1)
    notes.append(f"agreement seconds per hasher: {spent}")
    if refusals:
        notes.append(f"bcrypt/os_crypt refused {refusals} non-UTF-8 passwords with PasswordValueError (passlib's documented behaviour for that backend; counted as refusal, digest not compared)")
    notes.append(f"builtin bcrypt hashing took {t_slow:.1f} s")
    groups.append(g)

    # =============================================================================================
    # 3. switching sequences
    # =============================================================================================
    g = Group(
        "backend-switching",
        "BackendMixin.set_backend (frame)",
        "unordered pairs {A, B} of different hashers x every sequence of 1..L switches (X, backend) (quick: the 9 base hashers, L=3 for the 9 "
        "ring-adjacent pairs and L=2 for the other 27; thorough: L=3 for all 36 base pairs, L=2 for every pair involving an ldap_/django_ wrapper) "
        "with X in {A, B} and backend among X's available ones: after the sequence a fixed probe "
        "(password, salt, cost) is re-hashed through every hasher of the tier and must equal the value recorded before any switch. "
        "builtin bcrypt is a switch target only for pairs (bcrypt, <one/each crypt hasher>) and then only `bcrypt` itself is probed in the family",
    )
    base_names = [n for n in ("md5_crypt", "sha1_crypt", "sha256_crypt", "sha512_crypt", "des_crypt", "bsdi_crypt", "bcrypt", "bcrypt_sha256", "scrypt") if n in usable]
    tier_names = base_names if quick else base_names + [n for n in usable if n not in base_names and settings_grid(n, rng, "quick")]
    probe_pw = "pässwörd-probe-0123456789"
    probes = {}
    for n in tier_names:
        h = handlers[n]
        kw = settings_grid(n, rng, "quick")[0][1]
        o = outcome(lambda: h.using(**kw).hash(probe_pw))  # noqa: B023
        if o[0] == "ok":
            probes[n] = (kw, o[1])
        else:
            skipped.append(f"switching: probe for {n} could not be computed ({o[1]})")
    tier_names = [n for n in tier_names if n in probes]

    def current(n):
        o = outcome(handlers[n].get_backend)
        return o[1] if o[0] == "ok" else None

    slow_partner = {"sha256_crypt"} if quick else {"md5_crypt", "sha1_crypt", "sha256_crypt", "sha512_crypt", "des_crypt", "bsdi_crypt", "scrypt"}

    def alphabet(a, b):
        allow_slow = (a == "bcrypt" and b in slow_partner) or (b == "bcrypt" and a in slow_partner)
        out = []
        for x in (a, b):
            for bk in usable[x]:
                if family(x) == "bcrypt" and bk == "builtin" and not allow_slow:
                    continue
                out.append((x, bk))
        return out

    plan = []
    for i, a in enumerate(base_names):
        for j in range(i + 1, len(base_names)):
            adjacent = j - i in (1, len(base_names) - 1)
            plan.append((a, base_names[j], 3 if (adjacent or not quick) else 2))
    for a, b in itertools.combinations(tier_names, 2):
        if a not in base_names or b not in base_names:
            plan.append((a, b, 2))
    deadline = time.time() + (40 if quick else 420)  # safety net only; the plan is sized to stay far below
    truncated = 0
    for a, b, maxlen in plan:
        alpha = alphabet(a, b)
        for length in range(1, maxlen + 1):
            for seq in itertools.product(alpha, repeat=length):
                if time.time() > deadline:
                    truncated += 1
                    continue
                # start every sequence from the recorded original state of both hashers
                for x in (a, b):
                    outcome(handlers[x].set_backend, original[x])
                ok = True
                for x, bk in seq:
                    so = outcome(handlers[x].set_backend, bk)
                    if so[0] != "ok":
                        g.fail(f"switch-error:{x}:{bk}", "available backend cannot be selected inside a switching sequence", {"pair": [a, b], "sequence": seq, "outcome": repr(so)})
                        ok = False
                        break
                if not ok:
                    continue
                g.case((a, b, seq))
                bcrypt_slow = "bcrypt" in usable and current("bcrypt") == "builtin"
                for n in tier_names:
                    if bcrypt_slow and family(n) == "bcrypt" and n != "bcrypt":
                        continue
                    kw, want = probes[n]
                    got = outcome(lambda: handlers[n].using(**kw).hash(probe_pw))  # noqa: B023
                    role = "self" if n in (a, b) else "other"
                    g.check(
                        got == ("ok", want),
                        f"switch-{role}:{n}",
                        "result obtained through a hasher changed after backend switches on " + ("it / its pair" if role == "self" else "other hashers"),
                        {"switched": [a, b], "sequence": seq, "probe_hasher": n, "using": repr(kw), "password": probe_pw, "want": want, "got": repr(got)[:200],
                         "backends_now": {m: current(m) for m in (a, b, n)}},
                    )
        for x in (a, b):
            outcome(handlers[x].set_backend, original[x])
    if truncated:
        skipped.append(f"switching: {truncated} sequences not run (time budget of the tier)")
    # after restoring, every probe is as before
    for n in tier_names:
        outcome(handlers[n].set_backend, original[n])
    for n in tier_names:
        kw, want = probes[n]
        got = outcome(lambda: handlers[n].using(**kw).hash(probe_pw))  # noqa: B023
        g.case(("restored", n))
        g.check(got == ("ok", want) and current(n) == original[n], f"restore:{n}", "after restoring the original backend the probe result / backend name differs", {"hasher": n, "want": want, "got": repr(got)[:200], "backend": current(n), "original": original[n]})
    groups.append(g)
    return groups


if __name__ == "__main__":
    main(build)
