"""Bounded stand-in for C09: every registered hasher x every using() option inside / at / beyond its limits
x relaxed on/off x numbers or strings x chains of using() x interleaved use; the hasher it was derived
from keeps its attributes (class __dict__ snapshot + inherited settings) and passlib.hash.<name> is untouched.

Oracle: the statement; limits are the public informational attributes of the *unconfigured* hasher
(min_rounds / max_rounds / default_rounds / rounds_cost, min_salt_size / max_salt_size / default_salt_size,
ident_values), the cost window arithmetic is specs/ctx_policy.window; hashes are parsed back with from_string.
"""
import os
import random
import sys
from contextlib import contextmanager

sys.path.insert(0, os.path.dirname(os.path.dirname(os.path.abspath(__file__))))

from common import Group, main, outcome  # noqa: E402
from specs import ctx_policy as P  # noqa: E402

PW = "pw"
SLOW = {"sun_md5_crypt", "atlassian_pbkdf2_sha1"}
ATTRS = (
    "default_rounds min_desired_rounds max_desired_rounds vary_rounds min_rounds max_rounds rounds_cost default_salt_size min_salt_size "
    "max_salt_size default_ident ident_values default_variant version block_size parallelism default_algs truncate_error truncate_size "
    "default_marker setting_kwds context_kwds name _configured deprecated"
).split()
MISSING = "<missing>"


def ctxkw(h):
    kw = {}
    if "user" in h.context_kwds:
        kw["user"] = "user"
    if "realm" in h.context_kwds:
        kw["realm"] = "realm"
    return kw


class G(Group):
    """Group that remembers the case being evaluated (for the witness of an unexpected exception)"""

    last_case = None

    def case(self, ident, nontrivial=True):
        self.last_case = ident
        Group.case(self, ident, nontrivial)


@contextmanager
def guarded(g, name, section):
    """an exception escaping a library call that the property says must succeed is a failure, not a harness crash"""
    try:
        yield
    except Exception as err:  # noqa: BLE001
        import traceback

        tb = traceback.extract_tb(err.__traceback__)
        where = [f"{os.path.basename(fr.filename)}:{fr.lineno}" for fr in tb[-3:]]
        g.fail(f"crash:{section}:{name}:{type(err).__name__}", f"call raised unexpectedly: {err}"[:200], {"hasher": name, "section": section, "trace": where, "case": repr(getattr(g, "last_case", None))[:300]})


class Subject:
    """one hasher under test"""

    def __init__(self, name, h, uh):
        self.name, self.h, self.uh = name, h, uh
        self.wrapper = isinstance(h, uh.PrefixWrapper)
        self.kw = ctxkw(h)
        sk = h.setting_kwds
        self.has_rounds = "rounds" in sk
        if self.has_rounds:
            self.f = dict(hmin=h.min_rounds, hmax=h.max_rounds, default=h.default_rounds, cost=h.rounds_cost)
            b = h.min_rounds
            if h.rounds_cost == "log2":
                self.lo, self.mid, self.hi = b, b + 1, b + 2
            else:
                b = max(b, 1)
                self.lo, self.mid, self.hi = b + 2, b + 5, b + 9
            if name.endswith("bsdi_crypt"):
                self.lo, self.mid, self.hi = 3, 7, 11  # odd values: even rounds are flagged by the scheme itself

    def hash(self, hh, limit=True):
        if limit and self.has_rounds:
            # never start an expensive computation because a setting leaked: report it instead (see guarded)
            d = hh.default_rounds
            cap = self.hi + 200 if self.f["cost"] == "linear" else self.hi + 2
            if d is None or d > cap:
                raise RuntimeError(f"hasher about to be used has default cost {d!r}, expected at most {cap}")
        return hh.hash(PW, **self.kw)

    def parse(self, hh, s):
        if isinstance(hh, self.uh.PrefixWrapper):
            return hh.wrapped.from_string(hh.orig_prefix + s[len(hh.prefix) :])
        return hh.from_string(s)

    def with_rounds(self, r):
        return self.hash(self.h.using(rounds=r))


def snapshot(h, uh):
    """class __dict__ (or wrapper __dict__ + wrapped class) and the inherited settings"""
    out = {}
    if isinstance(h, uh.PrefixWrapper):
        for k, v in vars(h).items():
            out["wrapper." + k] = v
        for k, v in snapshot(h.wrapped, uh).items():
            out["wrapped." + k] = v
        return out
    for k, v in vars(h).items():
        out["vars." + k] = v
    for a in ATTRS:
        try:
            out["attr." + a] = getattr(h, a, MISSING)
        except Exception as err:  # noqa: BLE001
            out["attr." + a] = "raises " + type(err).__name__
    return out


def same(a, b):
    if a is b:
        return True
    try:
        if type(a) is type(b) and isinstance(a, (int, str, bytes, float, tuple, list, dict, set, frozenset, type(None))):
            return a == b
    except Exception:  # noqa: BLE001
        pass
    # bound class methods / static methods are re-created on each access of vars(): compare underlying function
    fa, fb = getattr(a, "__func__", a), getattr(b, "__func__", b)
    return fa is fb


def diff(s0, s1):
    return sorted(k for k in set(s0) | set(s1) if k not in s0 or k not in s1 or not same(s0[k], s1[k]))


def build(tier, rng):
    import passlib.utils.handlers as uh
    from passlib import hash as H
    from passlib import registry

    import logging

    logging.disable(logging.WARNING)  # scram logs a warning for the unknown digest name used as a refusal witness
    uh.rng = random.Random(rng.getrandbits(64))  # library salts / vary draws follow the harness seed
    thorough = tier != "quick"
    skipped = []
    subjects = []
    for name in registry.list_crypt_handlers():
        try:
            h = registry.get_crypt_handler(name)
            if getattr(h, "backends", None):
                h.get_backend()
            s = Subject(name, h, uh)
            s.hash(h.using(rounds=s.lo) if s.has_rounds else h)  # warm up lazy state (backends, wrapper caches)
            _ = getattr(h, "ident", None), getattr(h, "ident_values", None)
        except Exception as err:  # noqa: BLE001
            skipped.append(f"{name}: {type(err).__name__}: {str(err)[:80]}")
            continue
        subjects.append(s)
    base = {s.name: snapshot(s.h, uh) for s in subjects}
    groups = []

    def frame(g, s, where):
        d = diff(base[s.name], snapshot(s.h, uh))
        g.check(not d, f"frame:{s.name}", "the hasher using() was called on changed", {"hasher": s.name, "after": where, "changed": d[:8]})
        g.check(getattr(H, s.name) is s.h and registry.get_crypt_handler(s.name) is s.h, f"global:{s.name}", "passlib.hash.<name> is no longer the same object", {"hasher": s.name, "after": where})

    def refused(g, s, key, what, strict_only=False, **kw):
        """value outside the limits: strict -> ValueError (TypeError for wrong types)"""
        o = outcome(s.h.using, **kw)
        g.case((s.name, "refuse", repr(sorted(kw.items()))))
        g.check(o[0] == "exc" and o[3], key, what, {"hasher": s.name, "using": repr(kw), "outcome": repr(o)[:200]})

    # =============================================================================================
    g = G(
        "rounds",
        "HasRounds.using / _clip_to_desired_rounds / _generate_rounds / _calc_needs_update / norm_integer",
        "every hasher with a cost setting x rounds | min/max/default (names and *_desired_* aliases) | vary_rounds (int, float, percent, strings) at cheap values inside the limits, one below / above the hard limits x relaxed on/off x ints or decimal strings; hashes parsed back; update check at window edges -1/0/+1",
    )
    for s in subjects:
        with guarded(g, s.name, "rounds"):
            if not s.has_rounds:
                continue
            h, f, lo, mid, hi = s.h, s.f, s.lo, s.mid, s.hi
            reps = 1 if s.name in SLOW else 3
            probe_cache = {}

            def probe(c, s=s, probe_cache=probe_cache):
                if c not in probe_cache:
                    probe_cache[c] = s.with_rounds(c)
                return probe_cache[c]

            def flagged_exactly(child, a, b, tag, s=s, f=f, probe=probe):
                step = 2 if s.name.endswith("bsdi_crypt") else 1
                for c in sorted({a - step, a, b, b + step}):
                    if c < f["hmin"] or c > f["hmax"] or (s.name in SLOW and c not in (a, b + step)):
                        continue
                    got = child.needs_update(probe(c))
                    g.check(got == (c < a or c > b), f"window-check:{s.name}", "update check does not flag exactly the hashes outside the configured window", {"hasher": s.name, "using": tag, "cost": c, "window": [a, b], "got": got})

            # -- rounds=v pins min, max and default
            for v in (lo, str(mid)):
                iv = int(v)
                child = h.using(rounds=v)
                g.case((s.name, "rounds", v))
                g.check((child.min_desired_rounds, child.max_desired_rounds, child.default_rounds) == (iv, iv, iv), f"rounds-attrs:{s.name}", "rounds=v does not set min, max and default", {"hasher": s.name, "rounds": v, "got": [child.min_desired_rounds, child.max_desired_rounds, child.default_rounds]})
                for _ in range(reps):
                    hs = s.hash(child)
                    g.check(s.parse(child, hs).rounds == iv, f"rounds-carried:{s.name}", "hash does not carry the configured cost", {"hasher": s.name, "rounds": v, "hash": hs})
                    g.check(child.needs_update(hs) is False, f"fresh-flagged:{s.name}", "own fresh hash flagged", {"hasher": s.name, "rounds": v, "hash": hs})
                flagged_exactly(child, iv, iv, f"rounds={v!r}")
                frame(g, s, f"using(rounds={v!r})")
            # -- explicit window, both spellings, numbers and strings
            for kw in (
                dict(min_rounds=lo, max_rounds=hi, default_rounds=mid),
                dict(min_desired_rounds=str(lo), max_desired_rounds=str(hi), default_rounds=str(mid)),
                dict(min_rounds=lo, max_rounds=lo),
                dict(min_rounds=hi, max_desired_rounds=hi, default_rounds=hi, relaxed=True),
            ):
                child = h.using(**kw)
                a = int(kw.get("min_rounds", kw.get("min_desired_rounds")))
                b = int(kw.get("max_rounds", kw.get("max_desired_rounds")))
                d = int(kw["default_rounds"]) if "default_rounds" in kw else min(max(f["default"], a), b)
                g.case((s.name, "window", repr(kw)))
                g.check((child.min_desired_rounds, child.max_desired_rounds, child.default_rounds) == (a, b, d), f"window-attrs:{s.name}", "configured window / default not taken over (default clipped into the window)", {"hasher": s.name, "using": repr(kw), "got": [child.min_desired_rounds, child.max_desired_rounds, child.default_rounds], "want": [a, b, d]})
                for _ in range(reps):
                    hs = s.hash(child)
                    g.check(s.parse(child, hs).rounds == d, f"rounds-carried:{s.name}", "hash does not carry the configured default cost", {"hasher": s.name, "using": repr(kw), "hash": hs})
                    g.check(child.needs_update(hs) is False, f"fresh-flagged:{s.name}", "own fresh hash flagged", {"hasher": s.name, "using": repr(kw), "hash": hs})
                flagged_exactly(child, a, b, repr(kw))
                frame(g, s, f"using({kw!r})")
            # -- the hasher's own default is clipped into a one-sided window
            child = h.using(max_rounds=hi)
            want = min(f["default"], hi)
            g.case((s.name, "max-only"))
            g.check(child.default_rounds == want and child.min_desired_rounds is None, f"default-clipped:{s.name}", "default not clipped to the configured maximum", {"hasher": s.name, "max_rounds": hi, "default": child.default_rounds})
            hs = s.hash(child)
            g.check(s.parse(child, hs).rounds == want or (s.name.endswith("bsdi_crypt") and s.parse(child, hs).rounds == want | 1 <= hi), f"rounds-carried:{s.name}", "hash does not carry the clipped default", {"hasher": s.name, "max_rounds": hi, "hash": hs})
            big = f["default"] + 3 if f["default"] + 3 <= f["hmax"] else f["hmax"]
            child = h.using(min_rounds=big)
            g.check(child.default_rounds == max(f["default"], big), f"default-clipped:{s.name}", "default not raised to the configured minimum", {"hasher": s.name, "min_rounds": big, "default": child.default_rounds})
            frame(g, s, "one-sided windows")
            # -- vary_rounds stays inside the window
            if s.name not in SLOW:
                for vary in (1, 2, 100, 0.5, 1.0, "10%", "50%", "1", "0.3", 0):
                    opts = dict(min_rounds=lo, max_rounds=hi, default_rounds=mid, vary_rounds=vary)
                    w = P.window(f, opts)
                    child = h.using(**opts)
                    g.case((s.name, "vary", repr(vary)))
                    seen = set()
                    for _ in range(8 if thorough else 4):
                        hs = s.hash(child)
                        c = s.parse(child, hs).rounds
                        seen.add(c)
                        ok = P.fresh_cost_ok("bsdi_crypt" if s.name.endswith("bsdi_crypt") else s.name, c, w)
                        g.check(ok, f"vary-range:{s.name}", "varied cost leaves default +/- vary_rounds or the configured window", {"hasher": s.name, "using": repr(opts), "cost": c, "range": [w["glo"], w["ghi"]]})
                        g.check(child.needs_update(hs) is False, f"fresh-flagged:{s.name}", "own fresh hash flagged", {"hasher": s.name, "using": repr(opts), "hash": hs})
                    if not w["varies"]:
                        g.check(seen == {mid} or s.name.endswith("bsdi_crypt"), f"vary-zero:{s.name}", "cost varies although the range is a single value", {"hasher": s.name, "vary": vary, "seen": sorted(seen)})
                frame(g, s, "vary_rounds")
                for bad in (-1, 1.5, "-5", "150%"):
                    refused(g, s, f"vary-refusal:{s.name}", "vary_rounds outside 0..1 / below 0 accepted", vary_rounds=bad, default_rounds=mid)
            # -- beyond the hard limits: refused, or clamped when relaxed
            below, above = f["hmin"] - 1, (f["hmax"] + 1 if f["hmax"] else None)
            for key in ("rounds", "min_rounds", "max_rounds", "default_rounds", "min_desired_rounds", "max_desired_rounds"):
                for val, limit in ((below, f["hmin"]), (above, f["hmax"])):
                    if val is None or val < -1:
                        continue
                    for v in (val, str(val)):
                        refused(g, s, f"hard-limit-refusal:{s.name}", "value outside the hard limits accepted", **{key: v})
                        o = outcome(h.using, relaxed=True, **{key: v})
                        g.case((s.name, "relaxed", key, v))
                        if not g.check(o[0] == "ok", f"hard-limit-relaxed:{s.name}", "relaxed=True does not clamp", {"hasher": s.name, "using": {key: v}, "outcome": repr(o)[:200]}):
                            continue
                        child = o[1]
                        got = {"rounds": (child.min_desired_rounds, child.max_desired_rounds, child.default_rounds), "min_rounds": (child.min_desired_rounds,), "min_desired_rounds": (child.min_desired_rounds,), "max_rounds": (child.max_desired_rounds,), "max_desired_rounds": (child.max_desired_rounds,), "default_rounds": (child.default_rounds,)}[key]
                        g.check(set(got) == {limit}, f"hard-limit-relaxed:{s.name}", "relaxed=True does not clamp to the limit", {"hasher": s.name, "using": {key: v}, "got": list(got), "limit": limit})
                        g.check(f["hmin"] <= child.default_rounds <= f["hmax"], f"hard-limit-default:{s.name}", "default cost outside the hard limits", {"hasher": s.name, "using": {key: v}, "default": child.default_rounds})
                        if child.default_rounds <= hi and s.name not in SLOW:
                            hs = s.hash(child)
                            c = s.parse(child, hs).rounds
                            g.check(f["hmin"] <= c <= f["hmax"], f"hard-limit-hash:{s.name}", "hash outside the hard limits", {"hasher": s.name, "using": {key: v}, "hash": hs})
            frame(g, s, "beyond hard limits")
            # -- inconsistent / mistyped
            refused(g, s, f"inconsistent:{s.name}", "max below min accepted", min_rounds=hi, max_rounds=lo)
            refused(g, s, f"inconsistent:{s.name}", "max below min accepted (relaxed)", min_rounds=hi, max_rounds=lo, relaxed=True)
            refused(g, s, f"inconsistent:{s.name}", "default above max accepted", min_rounds=lo, max_rounds=mid, default_rounds=hi)
            refused(g, s, f"inconsistent:{s.name}", "default below min accepted", min_rounds=mid, max_rounds=hi, default_rounds=lo)
            refused(g, s, f"alias-clash:{s.name}", "both spellings accepted", min_rounds=lo, min_desired_rounds=lo)
            refused(g, s, f"alias-clash:{s.name}", "both spellings accepted", max_rounds=hi, max_desired_rounds=hi)
            refused(g, s, f"mistyped:{s.name}", "non-integer rounds accepted", rounds=1.5)
            refused(g, s, f"mistyped:{s.name}", "non-numeric string accepted", rounds="many")
            frame(g, s, "refused settings")
    groups.append(g)

    # =============================================================================================
    g = G(
        "salt",
        "HasSalt.using / _clip_to_valid_salt_size / _norm_salt",
        "every hasher with salt_size: min, default, max (<=48), as int or string, one below / above the limits x relaxed on/off; every hasher with salt: pinned salt (taken from a parsed hash), too long (strict / relaxed truncation), too short; parsed back",
    )
    for s in subjects:
        with guarded(g, s.name, "salt"):
            h = s.h
            sk = h.setting_kwds
            base_h = h.using(rounds=s.lo) if s.has_rounds else h
            reps = 1 if s.name in SLOW else 3
            if "salt_size" in sk:
                mn, mx, df = h.min_salt_size, h.max_salt_size, h.default_salt_size
                sizes = sorted({mn, df, min(mx or 48, 48)})
                for size in sizes + [str(sizes[-1])]:
                    child = base_h.using(salt_size=size)
                    g.case((s.name, "salt_size", size))
                    g.check(child.default_salt_size == int(size), f"salt-size-attr:{s.name}", "salt_size not taken over", {"hasher": s.name, "salt_size": size, "got": child.default_salt_size})
                    for _ in range(reps):
                        hs = s.hash(child)
                        salt = s.parse(child, hs).salt
                        g.check(len(salt) == int(size), f"salt-size-carried:{s.name}", "hash does not carry a salt of the configured size", {"hasher": s.name, "salt_size": size, "hash": hs, "salt": repr(salt)})
                for val, limit in ((mn - 1, mn), ((mx + 1) if mx else None, mx)):
                    if val is None or val < 0:
                        continue
                    refused(g, s, f"salt-size-refusal:{s.name}", "salt_size outside the limits accepted", salt_size=val)
                    o = outcome(base_h.using, salt_size=val, relaxed=True)
                    g.case((s.name, "salt_size-relaxed", val))
                    if g.check(o[0] == "ok" and o[1].default_salt_size == limit, f"salt-size-relaxed:{s.name}", "relaxed=True does not clamp salt_size to the limit", {"hasher": s.name, "salt_size": val, "outcome": repr(o)[:160]}):
                        hs = s.hash(o[1])
                        g.check(len(s.parse(o[1], hs).salt) == limit, f"salt-size-carried:{s.name}", "clamped salt size not carried", {"hasher": s.name, "salt_size": val, "hash": hs})
                refused(g, s, f"salt-size-alias:{s.name}", "both spellings accepted", salt_size=sizes[0], default_salt_size=sizes[0])
                frame(g, s, "salt_size")
            if "salt" in sk and s.name != "cisco_type7":
                child0 = base_h
                salt = s.parse(child0, s.hash(child0)).salt
                if salt is None:
                    continue
                child = base_h.using(salt=salt)
                g.case((s.name, "salt"))
                for _ in range(2):
                    hs = s.hash(child)
                    g.check(s.parse(child, hs).salt == salt, f"salt-carried:{s.name}", "hash does not carry the pinned salt", {"hasher": s.name, "salt": repr(salt), "hash": hs})
                if len(salt) >= 4:
                    other = s.parse(base_h, s.hash(base_h)).salt
                    g.check(other != salt, f"salt-leak:{s.name}", "the parent now produces the child's pinned salt", {"hasher": s.name, "salt": repr(salt)})
                mn, mx = h.min_salt_size, h.max_salt_size
                if mx and "bcrypt" not in s.name:
                    longer = salt + salt[:1] if salt else None
                    if longer and len(longer) > mx:
                        refused(g, s, f"salt-too-long:{s.name}", "over-long salt accepted", salt=longer)
                        o = outcome(base_h.using, salt=longer, relaxed=True)
                        g.case((s.name, "salt-long-relaxed"))
                        if g.check(o[0] == "ok", f"salt-too-long-relaxed:{s.name}", "relaxed=True does not truncate an over-long salt", {"hasher": s.name, "outcome": repr(o)[:160]}):
                            hs = s.hash(o[1])
                            g.check(s.parse(o[1], hs).salt == longer[:mx], f"salt-too-long-relaxed:{s.name}", "truncated salt is not the prefix of the given one", {"hasher": s.name, "hash": hs})
                if mn and len(salt) >= mn:
                    refused(g, s, f"salt-too-short:{s.name}", "too short salt accepted", salt=salt[: mn - 1])
                    refused(g, s, f"salt-too-short:{s.name}", "too short salt accepted (relaxed)", salt=salt[: mn - 1], relaxed=True)
                frame(g, s, "salt")
    groups.append(g)

    # =============================================================================================
    g = G(
        "ident-variant-version",
        "HasManyIdents.using / fshp.using / bcrypt_sha256.using / scrypt.using / ParallelismMixin.using / scram.using / TruncateMixin.using / unix_disabled.using / cisco_type7.using",
        "ident: every ident value and alias of every multi-ident hasher ($2x$ excepted: documented unsupported), unknown ident; fshp variants 0..3 by number / digit string / digest name, unknown; bcrypt_sha256 version 1, 2, 3 x ident; scrypt block_size / parallelism 1, 2, 4, '3', 0 (strict / relaxed); scram algs lists / strings, without sha-1, over-long name; truncate_error True/False/'true'/'no'/'maybe' on every hasher that has it; unix_disabled markers; cisco_type7 salt 0..52, 53",
    )
    for s in subjects:
        with guarded(g, s.name, "ident"):
            h = s.h
            if s.wrapper or "ident" not in h.setting_kwds or not getattr(h, "ident_values", None):
                continue
            base_h = h.using(rounds=s.lo) if s.has_rounds else h
            for v in h.ident_values:
                if v == "$2x$":
                    continue
                o = outcome(base_h.using, ident=v)
                g.case((s.name, "ident", v))
                if o[0] == "exc":
                    g.check(o[3], f"ident-refusal-class:{s.name}", "ident value refused with something else than a value error", {"hasher": s.name, "ident": v, "outcome": repr(o)})
                    continue
                child = o[1]
                g.check(child.default_ident == v, f"ident-attr:{s.name}", "ident not taken over", {"hasher": s.name, "ident": v, "got": child.default_ident})
                hs = s.hash(child)
                p = s.parse(child, hs)
                literal = s.hash(base_h).startswith(h.default_ident)  # does this format spell the identifier out at the start?
                g.check(p.ident == v and (hs.startswith(v) or not literal), f"ident-carried:{s.name}", "hash does not carry the configured identifier", {"hasher": s.name, "ident": v, "hash": hs})
            for alias, target in (h.ident_aliases or {}).items():
                if target == "$2x$":
                    continue
                o = outcome(base_h.using, ident=alias)
                g.case((s.name, "ident-alias", alias))
                if o[0] == "ok":
                    g.check(o[1].default_ident == target, f"ident-alias:{s.name}", "alias resolves to a different identifier", {"hasher": s.name, "alias": alias, "got": o[1].default_ident})
                else:
                    g.check(o[3], f"ident-refusal-class:{s.name}", "alias refused with something else than a value error", {"hasher": s.name, "alias": alias, "outcome": repr(o)})
            refused(g, s, f"ident-unknown:{s.name}", "unknown identifier accepted", ident="$zz$")
            refused(g, s, f"ident-alias-clash:{s.name}", "both spellings accepted", ident=h.ident_values[-1], default_ident=h.ident_values[-1])
            frame(g, s, "ident")
    by = {s.name: s for s in subjects}
    if "fshp" in by:
        with guarded(g, 'fshp', "fshp"):
            s = by["fshp"]
            names = {0: "sha1", 1: "sha256", 2: "sha384", 3: "sha512"}
            for v in range(4):
                for spell in (v, str(v), names[v]):
                    child = s.h.using(variant=spell, rounds=2)
                    hs = s.hash(child)
                    g.case(("fshp", "variant", spell))
                    g.check(child.default_variant == v and hs.startswith("{FSHP%d|" % v) and s.parse(child, hs).variant == v, "variant:fshp", "hash does not carry the configured variant", {"variant": spell, "hash": hs})
            for bad in (4, "9", "md5", -1):
                refused(g, s, "variant-refusal:fshp", "unknown variant accepted", variant=bad)
            refused(g, s, "variant-refusal:fshp", "mistyped variant accepted", variant=1.5)
            frame(g, s, "variant")
    if "bcrypt_sha256" in by:
        with guarded(g, 'bcrypt_sha256', "bcrypt_sha256"):
            s = by["bcrypt_sha256"]
            for ver, ident, ok, prefix in ((2, None, True, "$bcrypt-sha256$v=2,t=2b,r=4$"), (1, None, True, "$bcrypt-sha256$2b,4$"), (1, "2a", True, "$bcrypt-sha256$2a,4$"), (2, "2b", True, "$bcrypt-sha256$v=2,t=2b,r=4$"), (2, "2a", False, None), (3, None, False, None), (0, None, False, None)):
                kw = dict(version=ver, rounds=4)
                if ident:
                    kw["ident"] = ident
                g.case(("bcrypt_sha256", "version", ver, ident))
                if not ok:
                    refused(g, s, "version-refusal:bcrypt_sha256", "unsupported version / ident combination accepted", **kw)
                    continue
                child = s.h.using(**kw)
                hs = s.hash(child)
                g.check(child.version == ver and hs.startswith(prefix) and s.parse(child, hs).version == ver, "version:bcrypt_sha256", "hash does not carry the configured version / ident", {"using": repr(kw), "hash": hs})
                g.check(child.verify(PW, hs), "version:bcrypt_sha256", "hash of the configured version does not verify", {"using": repr(kw), "hash": hs})
            frame(g, s, "version")
    if "scrypt" in by:
        with guarded(g, 'scrypt', "scrypt"):
            s = by["scrypt"]
            for key, fmt in (("block_size", "r=%d,"), ("parallelism", "p=%d$")):
                for v in (1, 2, 4, "3"):
                    child = s.h.using(rounds=2, **{key: v})
                    hs = s.hash(child)
                    g.case(("scrypt", key, v))
                    g.check(getattr(child, key) == int(v) and (fmt % int(v)) in hs and getattr(s.parse(child, hs), key) == int(v), f"{key}:scrypt", "hash does not carry the configured value", {"using": {key: v}, "hash": hs})
                    g.check(child.needs_update(hs) is False, "fresh-flagged:scrypt", "own fresh hash flagged", {"using": {key: v}, "hash": hs})
                    g.check(s.h.using(rounds=2).needs_update(hs) is (int(v) != getattr(s.h, key)), f"{key}-update:scrypt", "update check does not flag exactly the hashes with a different value", {"using": {key: v}, "hash": hs})
                refused(g, s, f"{key}-refusal:scrypt", "value below 1 accepted", rounds=2, **{key: 0})
                o = outcome(s.h.using, rounds=2, relaxed=True, **{key: 0})
                g.case(("scrypt", key, "relaxed-0"))
                g.check(o[0] == "ok" and getattr(o[1], key) == 1, f"{key}-relaxed:scrypt", "relaxed=True does not clamp to 1", {"outcome": repr(o)[:160]})
            # found: using() validates the combination of the class it was called on, not of the result
            o = outcome(s.h.using, rounds=2, block_size=2**29, parallelism=4)
            g.case(("scrypt", "invalid-combination"))
            if o[0] == "ok":
                o2 = outcome(o[1].hash, PW)
                g.check(o2[0] == "ok", "scrypt:invalid-combination-accepted", "using() accepts block_size * parallelism >= 2**30 (it validates the parent's settings instead of the new ones); the derived hasher cannot hash: " + repr(o2)[:120], {"using": "scrypt.using(rounds=2, block_size=2**29, parallelism=4)"})
            else:
                g.check(o[3], "scrypt:invalid-combination-accepted", "invalid combination refused with something else than a value error", {"outcome": repr(o)})
            frame(g, s, "block_size / parallelism")
    if "scram" in by:
        with guarded(g, 'scram', "scram"):
            s = by["scram"]
            for algs, want in ((["sha-1", "sha-256"], ["sha-1", "sha-256"]), ("sha-512, sha-1", ["sha-1", "sha-512"]), (["SHA1", "sha256", "md5"], ["md5", "sha-1", "sha-256"]), ("sha-1", ["sha-1"])):
                child = s.h.using(algs=algs, rounds=2)
                hs = s.hash(child)
                g.case(("scram", "algs", repr(algs)))
                g.check(list(child.default_algs) == want and sorted(s.parse(child, hs).algs) == want, "algs:scram", "hash does not carry the configured algorithms", {"algs": algs, "hash": hs})
                g.check(child.needs_update(hs) is False, "fresh-flagged:scram", "own fresh hash flagged", {"algs": algs})
            for bad in (["sha-256"], "sha-256,sha-512", ["sha-1", "sha512-256"]):
                refused(g, s, "algs-refusal:scram", "algorithm list without sha-1 / with an over-long name accepted", algs=bad)
            frame(g, s, "algs")
    for s in subjects:
        with guarded(g, s.name, "truncate_error"):
            if "truncate_error" not in s.h.setting_kwds:
                continue
            size = s.h.truncate_size
            long_pw = "x" * (size + 1)
            base_h = s.h.using(rounds=s.lo) if s.has_rounds else s.h
            for val, want in ((True, True), (False, False), ("true", True), ("no", False), ("1", True), (0, False)):
                child = base_h.using(truncate_error=val)
                o = outcome(child.hash, long_pw, **s.kw)
                o_ok = outcome(child.hash, "x" * size, **s.kw)
                g.case((s.name, "truncate_error", repr(val)))
                g.check(child.truncate_error is want, f"truncate-attr:{s.name}", "truncate_error not taken over", {"hasher": s.name, "value": repr(val), "got": repr(child.truncate_error)})
                g.check((o[0] == "exc" and o[1] == "PasswordTruncateError") if want else o[0] == "ok", f"truncate-policy:{s.name}", "over-long password not refused / not accepted per the configured policy", {"hasher": s.name, "value": repr(val), "outcome": repr(o)[:160]})
                g.check(o_ok[0] == "ok", f"truncate-policy:{s.name}", "password of exactly the size limit refused", {"hasher": s.name, "value": repr(val), "outcome": repr(o_ok)[:160]})
            refused(g, s, f"truncate-refusal:{s.name}", "unrecognised boolean accepted", truncate_error="maybe")
            frame(g, s, "truncate_error")
    if "unix_disabled" in by:
        with guarded(g, 'unix_disabled', "unix_disabled"):
            s = by["unix_disabled"]
            for m in ("*", "!", "!locked", "*LK*"):
                child = s.h.using(marker=m)
                g.case(("unix_disabled", "marker", m))
                g.check(child.hash(PW) == m and s.h.hash(PW) == s.h.default_marker, "marker:unix_disabled", "disabled marker not carried / parent changed", {"marker": m, "got": child.hash(PW)})
            for bad in ("abc", "$1$abc", "x!"):
                refused(g, s, "marker-refusal:unix_disabled", "string that is not a disabled marker accepted", marker=bad)
            frame(g, s, "marker")
    if "cisco_type7" in by:
        with guarded(g, 'cisco_type7', "cisco_type7"):
            s = by["cisco_type7"]
            for v in (0, 1, 9, 10, 52):
                child = s.h.using(salt=v)
                hs = child.hash(PW)
                g.case(("cisco_type7", "salt", v))
                g.check(hs.startswith("%02d" % v) and s.h.from_string(hs).salt == v and child.verify(PW, hs), "salt:cisco_type7", "hash does not carry the configured salt", {"salt": v, "hash": hs})
            for bad, lim in ((53, 52), (-1, 0)):
                refused(g, s, "salt-refusal:cisco_type7", "salt outside 0..52 accepted", salt=bad)
                o = outcome(s.h.using, salt=bad, relaxed=True)
                g.case(("cisco_type7", "salt-relaxed", bad))
                g.check(o[0] == "ok" and o[1].hash(PW).startswith("%02d" % lim), "salt-relaxed:cisco_type7", "relaxed=True does not clamp the salt", {"salt": bad, "outcome": repr(o)[:120]})
            frame(g, s, "salt")
        # hashers without settings: using() still gives a distinct hasher; unknown settings are type errors
    for s in subjects:
        with guarded(g, s.name, "plain"):
            o = outcome(s.h.using)
            g.case((s.name, "plain"))
            if g.check(o[0] == "ok" and o[1] is not s.h, f"plain-using:{s.name}", "using() without settings does not return a new hasher", {"hasher": s.name, "outcome": repr(o)[:120]}):
                g.check(o[1].name == s.h.name and o[1].setting_kwds == s.h.setting_kwds, f"plain-using:{s.name}", "plain copy differs in name / settings", {"hasher": s.name})
                if not s.has_rounds or s.f["default"] <= 20:
                    hs = s.hash(o[1], limit=False)
                    g.check(s.h.identify(hs) and (getattr(s.h, "is_disabled", False) or s.h.verify(PW, hs, **s.kw)), f"plain-using:{s.name}", "hash of the plain copy not accepted by the original", {"hasher": s.name, "hash": hs})
            o = outcome(s.h.using, no_such_setting=1)
            g.check(o[0] == "exc" and o[1] == "TypeError", f"unknown-setting:{s.name}", "unknown setting accepted", {"hasher": s.name, "outcome": repr(o)[:120]})
            frame(g, s, "plain using()")
    groups.append(g)

    # =============================================================================================
    g = G(
        "chains-and-isolation",
        "MinimalHandler.using (fresh subclass) / HasRounds.using on a derived hasher / PrefixWrapper.using",
        "every hasher with a cost setting x generated chains of 2..4 using() calls (min/max/default/rounds/vary at 5 cheap values, later calls inheriting earlier ones; the witness class 'later min above inherited max / later max below inherited min' excluded) against a sequential model; every link's attribute snapshot before/after deriving from it and after interleaved hashing by parent, child and grandchild; salt_size / ident / variant links mixed in",
    )

    def model_step(st, opts, f, vals):
        """sequential model of the window; returns new state | 'invalid' | 'avoid'"""
        lo, hi, d, vary = st
        mn, mx, df, r = opts.get("min_rounds"), opts.get("max_rounds"), opts.get("default_rounds"), opts.get("rounds")
        if r is not None:
            mn = r if mn is None else mn
            mx = r if mx is None else mx
            df = r if df is None else df
        if mn is not None and mx is not None and mx < mn:
            return "invalid"
        if mx is not None and mn is None and lo is not None and mx < lo:
            return "avoid"
        if mn is not None and mx is None and hi is not None and mn > hi:
            return "avoid"  # using:chained-min-above-inherited-max
        nlo = mn if mn is not None else lo
        nhi = mx if mx is not None else hi
        if df is not None and ((nlo is not None and df < nlo) or (nhi is not None and df > nhi)):
            return "invalid"
        nd = df if df is not None else d
        if nlo is not None and nd < nlo:
            nd = nlo
        if nhi is not None and nd > nhi:
            nd = nhi
        return (nlo, nhi, nd, opts.get("vary_rounds", vary))

    n_chains = 40 if not thorough else 400
    for s in subjects:
        with guarded(g, s.name, "chains"):
            if not s.has_rounds or s.name in SLOW:
                continue
            f = s.f
            step = 2 if s.name.endswith("bsdi_crypt") else 1
            vals = [s.lo + i * step for i in range(5)] if f["cost"] == "linear" else [f["hmin"] + i for i in range(4)]
            for _ in range(n_chains):
                # first link always pins a cheap window so that every later link is cheap to hash with
                a, c, b = sorted(rng.choice(vals) for _ in range(3))
                chain = [dict(min_rounds=a, max_rounds=b, default_rounds=c)]
                st = (a, b, c, None)
                states = [st]
                expect_invalid = False
                for _ in range(rng.randrange(1, 4)):
                    for _try in range(20):
                        keys = rng.sample(["min_rounds", "max_rounds", "default_rounds", "rounds", "vary_rounds"], rng.randrange(1, 4))
                        opts = {k: (rng.choice([0, 1, 2, 0.5, "50%"]) if k == "vary_rounds" else rng.choice(vals)) for k in keys}
                        nst = model_step(st, opts, f, vals)
                        if nst == "avoid" or (nst == "invalid" and rng.random() < 0.8):
                            continue
                        break
                    else:
                        opts, nst = {"default_rounds": st[2]}, st
                    chain.append(opts)
                    if nst == "invalid":
                        expect_invalid = True
                        break
                    st = nst
                    states.append(st)
                if rng.random() < 0.3:
                    opts = {k: (str(v) if isinstance(v, int) and rng.random() < 0.5 else v) for k, v in chain[-1].items()}
                    chain[-1] = opts
                g.case((s.name, repr(chain)))
                links = [s.h]
                snaps = [base[s.name]]
                ok = True
                for i, opts in enumerate(chain):
                    o = outcome(links[-1].using, **opts)
                    last = i == len(chain) - 1
                    if last and expect_invalid:
                        g.check(o[0] == "exc" and o[3], f"chain-refusal:{s.name}", "inconsistent later setting accepted", {"hasher": s.name, "chain": repr(chain), "outcome": repr(o)[:160]})
                        ok = False
                        break
                    if not g.check(o[0] == "ok", f"chain-accept:{s.name}", "consistent chain refused", {"hasher": s.name, "chain": repr(chain), "at": i, "outcome": repr(o)[:200]}):
                        ok = False
                        break
                    g.check(o[1] is not links[-1], f"chain-fresh:{s.name}", "using() returned the hasher it was called on", {"hasher": s.name, "chain": repr(chain)})
                    links.append(o[1])
                    snaps.append(snapshot(o[1], uh))
                # interleaved use: last to first, then first to last; every link follows its own state
                order = list(range(1, len(links))) if ok or len(links) > 1 else []
                for i in list(reversed(order)) + order:
                    lo_, hi_, d_, vary_ = states[i - 1]
                    hh = links[i]
                    w = P.window(f, {k: v for k, v in dict(min_rounds=lo_, max_rounds=hi_, default_rounds=d_, vary_rounds=vary_).items() if v is not None})
                    g.check((hh.min_desired_rounds, hh.max_desired_rounds, hh.default_rounds) == (lo_, hi_, d_), f"chain-attrs:{s.name}", "derived hasher's window differs from the sequential model", {"hasher": s.name, "chain": repr(chain), "link": i, "got": [hh.min_desired_rounds, hh.max_desired_rounds, hh.default_rounds], "want": [lo_, hi_, d_]})
                    hs = s.hash(hh)
                    c = s.parse(hh, hs).rounds
                    g.check(P.fresh_cost_ok("bsdi_crypt" if s.name.endswith("bsdi_crypt") else s.name, c, w), f"chain-cost:{s.name}", "hash of a chain link does not carry that link's cost", {"hasher": s.name, "chain": repr(chain), "link": i, "cost": c, "range": [w["glo"], w["ghi"]]})
                    g.check(hh.needs_update(hs) is False, f"chain-fresh-flagged:{s.name}", "a chain link flags its own fresh hash", {"hasher": s.name, "chain": repr(chain), "link": i, "hash": hs})
                for i in range(len(links)):
                    d = diff(snaps[i], snapshot(links[i], uh))
                    g.check(not d, f"chain-frame:{s.name}", "a link changed after hashers were derived from it / used", {"hasher": s.name, "chain": repr(chain), "link": i, "changed": d[:8]})
            frame(g, s, "chains")
        # mixed-option chains: cost, salt size and identifier settings are inherited independently
    for s in subjects:
        with guarded(g, s.name, "mixed-chain"):
            if not s.has_rounds or "salt_size" not in s.h.setting_kwds or s.name in SLOW:
                continue
            mn, mx = s.h.min_salt_size, s.h.max_salt_size
            sz1, sz2 = max(mn, 1) + 1, max(mn, 1) + 3
            if mx and sz2 > mx:
                continue
            c1 = s.h.using(rounds=s.lo)
            c2 = c1.using(salt_size=sz1)
            c3 = c2.using(rounds=s.mid)
            c4 = c3.using(salt_size=sz2, relaxed=True)
            snaps = [snapshot(c, uh) for c in (c1, c2, c3, c4)]
            want = [(s.lo, None), (s.lo, sz1), (s.mid, sz1), (s.mid, sz2)]
            g.case((s.name, "mixed-chain"))
            for c, (r, sz) in list(zip((c1, c2, c3, c4), want))[::-1] + list(zip((c1, c2, c3, c4), want)):
                hs = s.hash(c)
                p = s.parse(c, hs)
                g.check(p.rounds == r and (sz is None or len(p.salt) == sz), f"mixed-chain:{s.name}", "cost / salt size of a link not inherited independently", {"hasher": s.name, "hash": hs, "want": [r, sz]})
            for c, sn in zip((c1, c2, c3, c4), snaps):
                d = diff(sn, snapshot(c, uh))
                g.check(not d, f"chain-frame:{s.name}", "a link changed after use", {"hasher": s.name, "changed": d[:8]})
            frame(g, s, "mixed chain")
    groups.append(g)

    # =============================================================================================
    g = G("chained-window-consistency", "HasRounds.using (inductive invariant min <= default <= max)", "a later min above an inherited max / a later max below an inherited min, on sha256_crypt, pbkdf2_sha256, bcrypt-style log2 (phpass) and a PrefixWrapper: refused, or the resulting window is consistent and fresh hashes are not flagged")
    KEY = "using:chained-min-above-inherited-max"
    for name, first, second in (
        ("sha256_crypt", dict(max_rounds=2000, default_rounds=1500), dict(min_rounds=3000)),
        ("pbkdf2_sha256", dict(max_rounds=10, default_rounds=5), dict(min_rounds=20)),
        ("phpass", dict(max_rounds=8), dict(min_rounds=9)),
        ("ldap_pbkdf2_sha256", dict(rounds=5), dict(min_rounds=7)),
        ("sha256_crypt", dict(min_rounds=3000, default_rounds=3000), dict(max_rounds=2000)),
        ("pbkdf2_sha256", dict(min_rounds=20), dict(max_rounds=10)),
    ):
        with guarded(g, name, "chained"):
            if name not in by:
                continue
            s = by[name]
            c1 = s.h.using(**first)
            o = outcome(c1.using, **second)
            g.case((name, repr(first), repr(second)))
            wit = {"call": f"{name}.using(**{first!r}).using(**{second!r})"}
            if o[0] == "exc":
                g.check(o[3], KEY, "refused with something else than a value error", dict(wit, outcome=repr(o)))
                continue
            c2 = o[1]
            lo_, hi_, d_ = c2.min_desired_rounds, c2.max_desired_rounds, c2.default_rounds
            if not g.check(lo_ is None or hi_ is None or lo_ <= hi_, KEY, "accepted with an empty window (min above max)", dict(wit, window=[lo_, hi_], default=d_)):
                continue
            if d_ <= 3000:
                hs = s.hash(c2, limit=False)
                g.check(c2.needs_update(hs) is False, KEY, "fresh hash of the derived hasher flagged by its own update check", dict(wit, hash=hs))
    groups.append(g)

    # =============================================================================================
    g = G("globals-unchanged", "passlib.hash.<name> after all of the above", "every hasher: attribute snapshot identical to the one taken before the first using(); passlib.hash.<name> / registry object identity; default-cost hash format (salt size, identifier, cost) for hashers whose default is cheap (thorough: all)")
    for s in subjects:
        with guarded(g, s.name, "globals"):
            g.case(s.name)
            frame(g, s, "end of run")
            cheap = not s.has_rounds or (s.f["cost"] == "log2" and s.f["default"] <= 12 and "bcrypt" not in s.name)
            if (cheap or thorough) and s.name not in SLOW:
                try:
                    hs = s.hash(s.h, limit=False)
                    p = s.parse(s.h, hs) if hasattr(s.h if not s.wrapper else s.h.wrapped, "from_string") else None
                except Exception as err:  # noqa: BLE001
                    g.fail(f"global-hash:{s.name}", f"pristine hasher can no longer hash: {type(err).__name__}: {err}"[:160], {"hasher": s.name})
                    continue
                if p is None:
                    continue
                if s.has_rounds:
                    want = s.f["default"] | 1 if s.name.endswith("bsdi_crypt") else s.f["default"]
                    g.check(p.rounds == want, f"global-format:{s.name}", "pristine hasher no longer uses its default cost", {"hasher": s.name, "hash": hs})
                if "salt_size" in s.h.setting_kwds:
                    g.check(len(p.salt) == s.h.default_salt_size, f"global-format:{s.name}", "pristine hasher no longer uses its default salt size", {"hasher": s.name, "hash": hs})
                if getattr(s.h, "default_ident", None) and not s.wrapper:
                    g.check(p.ident == s.h.default_ident, f"global-format:{s.name}", "pristine hasher no longer uses its default identifier", {"hasher": s.name, "hash": hs})
    groups.append(g)

    # =============================================================================================
    g = G("configured-format-version", "bcrypt_sha256.using(version=...)", "bcrypt_sha256 / django-free wrappers configured with version 1 and 2 (and hashers derived from those): fresh hashes carry the configured wrapper version, are not flagged by the hasher's own update check, hashes of the OTHER version are flagged exactly when older; lmhash.using(truncate_error=True) with a per-call encoding counts the bytes of THAT encoding")
    try:
        import passlib.hash as PH
        for ver in (1, 2):
            for derive in (False, True):
                h = PH.bcrypt_sha256.using(version=ver, rounds=4)
                if derive:
                    h = h.using(rounds=5)
                label = f"bcrypt_sha256(version={ver}{', derived' if derive else ''})"
                g.case(label)
                hs = h.hash("pw")
                g.check(h.from_string(hs).version == ver, f"version:format:{ver}", "fresh hash does not carry the configured wrapper version", {"hasher": label, "hash": hs})
                g.check(h.needs_update(hs) is False, f"version:fresh-flagged:{ver}", "the hasher's update check flags its own fresh hash", {"hasher": label, "hash": hs})
                other = PH.bcrypt_sha256.using(version=3 - ver, rounds=5 if derive else 4).hash("pw")
                g.check(h.needs_update(other) is (3 - ver < ver), f"version:other:{ver}", "a hash of the other wrapper version is flagged iff it is older than the configured one", {"hasher": label, "hash": other})
                g.check(h.verify("pw", hs) and h.verify("pw", other), f"version:verify:{ver}", "hash of either version does not verify", {"hasher": label})
        lm = PH.lmhash.using(truncate_error=True)
        for pw, enc, over in (("\u00e9" * 8, "utf-8", True), ("\u00e9" * 7, "utf-8", False), ("\u00e9" * 14, "cp437", False), ("\u00e9" * 14, "latin-1", False), ("\u20ac" * 5, "utf-8", True), ("a" * 15, None, True)):
            g.case(("lmhash", repr(pw), enc))
            try:
                lm.hash(pw, **({"encoding": enc} if enc else {}))
                raised = False
            except Exception as err:  # noqa: BLE001
                raised = type(err).__name__ == "PasswordTruncateError"
            g.check(raised == over, f"lmhash:truncate-error:{enc}", "lmhash(truncate_error=True) does not count the bytes of the encoding the caller named", {"password": repr(pw), "encoding": enc, "expected_refusal": over})
    except Exception as err:  # noqa: BLE001
        skipped.append(f"configured-format-version: {type(err).__name__}: {err}"[:200])
    groups.append(g)
    return groups, skipped, {"hashers": len(subjects)}


if __name__ == "__main__":
    main(build)
