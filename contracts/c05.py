"""C05 -- size limits: no silent truncation when forbidden, no oversized passwords."""
import z3

from contracts.trusted import COMMON, fresh_str
from pyvc.contract import Bool, Bytes, Const, Contract, Int, NoneT, Obj, Str, Union
from pyvc.runner import Bounded
from pyvc.values import SBool, SDict, SObj, SStr, SStub

LEVEL = "proof"
H = "passlib/utils/handlers.py"
EXPLANATION = (
    "TruncateMixin._check_truncate_policy is verified (raises exactly when truncate_error and the BYTE length exceeds "
    "the limit) and every call site (des_crypt, crypt16, django_des_crypt, lmhash, bcrypt's _norm_digest_args) is verified "
    "to hand it the ENCODED password, so the limit counts bytes for text passwords too; validate_secret refuses more than "
    "MAX_PASSWORD_SIZE; bcrypt's order of checks (encode, size, truncation policy, NUL refusal) is verified. Digest "
    "dependence on every byte and the NUL refusal of the raw crypt routines are covered by the bounded stand-in."
)
ASSUMPTIONS = [
    "utf-8 encoding is an uninterpreted injective function with len(s) <= len(utf8(s)) <= 4 len(s), identity on ASCII",
    "MAX_PASSWORD_SIZE == 4096",
]

policy = Contract(
    "_check_truncate_policy", f"{H}::TruncateMixin._check_truncate_policy",
    params={"cls": Obj(fields={"truncate_size": Int(lo=1), "truncate_error": Bool()}), "secret": Bytes()},
    raises_iff={"PasswordTruncateError": "cls.truncate_error and len(secret) > cls.truncate_size"},
    descr="all byte strings, any limit",
)

policy_for_callers = Contract(
    "_check_truncate_policy(by contract)", f"{H}::TruncateMixin._check_truncate_policy",
    params=policy.params,
    requires=["isinstance(secret, bytes)"],
    raises_iff={"PasswordTruncateError": "cls.truncate_error and len(secret) > cls.truncate_size"},
    returns="none",
)

validate_secret = Contract(
    "validate_secret", f"{H}::validate_secret",
    params={"secret": Union(Str(), Bytes(), NoneT(), Int())},
    raises_iff={"PasswordSizeError": "isinstance(secret, (str, bytes)) and len(secret) > 4096", "TypeError": "not isinstance(secret, (str, bytes))"},
    descr="every value",
)


def _self(relpath, cls, **extra):
    f = {"truncate_size": Int(lo=1), "truncate_error": Bool(), "use_defaults": Bool(),
         "_calc_checksum_backend": SStub(lambda it, a, k: fresh_str(it, "checksum"), "_calc_checksum_backend"), "salt": Str()}
    f.update(extra)
    return Obj(cls=(relpath, cls), fields=f)


BYTELEN = "(len(secret.encode('utf-8')) if isinstance(secret, str) else len(secret))"
TRUNC_IFF = f"self.use_defaults and self.truncate_error and {BYTELEN} > self.truncate_size"

D = "passlib/handlers/des_crypt.py"
DJ = "passlib/handlers/django.py"
W = "passlib/handlers/windows.py"


def _des_crypt_stub(it, args, kwargs):
    o = SObj("des_crypt_instance", fields={"_calc_checksum": SStub(lambda i, a, k: fresh_str(i, "des_checksum"), "des_crypt._calc_checksum")})
    return o


CONTRACTS = [
    policy,
    validate_secret,
    Contract(
        "des_crypt._calc_checksum", f"{D}::des_crypt._calc_checksum",
        params={"self": _self(D, "des_crypt"), "secret": Union(Str(), Bytes())},
        raises_iff={"PasswordTruncateError": TRUNC_IFF},
        descr="text and bytes passwords; the limit counts encoded bytes",
    ),
    Contract(
        "crypt16._calc_checksum", f"{D}::crypt16._calc_checksum",
        params={"self": _self(D, "crypt16"), "secret": Union(Str(), Bytes())},
        globals={**COMMON, "_crypt_secret_to_key": SStub(lambda it, a, k: __import__("contracts.trusted", fromlist=["fresh_int"]).fresh_int(it, "key", 0), "_crypt_secret_to_key"),
                 "des_encrypt_int_block": SStub(lambda it, a, k: __import__("contracts.trusted", fromlist=["fresh_int"]).fresh_int(it, "des", 0, 2**64 - 1), "des_encrypt_int_block")},
        raises={"PasswordTruncateError": TRUNC_IFF, "ValueError": None},
        ensures=[("accepted only when the policy allows it", f"not ({TRUNC_IFF})")],
        descr="text and bytes passwords",
    ),
    Contract(
        "django_des_crypt._calc_checksum", f"{DJ}::django_des_crypt._calc_checksum",
        params={"self": _self(DJ, "django_des_crypt"), "secret": Union(Str(), Bytes())},
        globals={"des_crypt": SStub(_des_crypt_stub, "des_crypt(salt=...)"), "_import_des_crypt": SStub(lambda it, a, k: None, "_import_des_crypt")},
        raises_iff={"PasswordTruncateError": TRUNC_IFF},
        descr="text and bytes passwords",
    ),
    Contract(
        "lmhash._calc_checksum", f"{W}::lmhash._calc_checksum",
        params={"self": _self(W, "lmhash", encoding="cp437", raw=SStub(lambda it, a, k: fresh_str(it, "raw", "bytes"), "lmhash.raw")), "secret": Union(Str(), Bytes())},
        globals={"hexlify": COMMON["hexlify"]},
        raises={"PasswordTruncateError": "self.use_defaults and self.truncate_error and (len(secret.upper().encode('cp437')) if isinstance(secret, str) else len(secret)) > self.truncate_size",
                "UnicodeEncodeError": "isinstance(secret, str)"},
        ensures=[("accepted only when the encoded (upper-cased) password fits or truncation is allowed",
                  "not (self.use_defaults and self.truncate_error and (len(secret.upper().encode('cp437')) if isinstance(secret, str) else len(secret)) > self.truncate_size)")],
        descr="text and bytes passwords, single-byte code page",
    ),
]
REGISTRY = [policy_for_callers]

from contracts import c10_options  # noqa: E402

# the context-wide policy reaches the hasher through _CryptConfig._init_options (a later item for a slot replaces the earlier one)
CONTRACTS += [c for c in c10_options.CONTRACTS if c.id.endswith(("[0]", "[1]", "[2]"))]
from contracts import c04_policy as _pol  # noqa: E402

# ... and a category-wide wildcard option (admin__all__truncate_error) must count as an option of that category
CONTRACTS += [c for c in _pol.CONTRACTS if c.id.startswith("get_scheme_options_with_flag")]
from contracts import bigcrypt as _big  # noqa: E402

# formats without a limit depend on every byte: every 8-byte block enters bigcrypt's digest chain / bsdi_crypt's key
CONTRACTS += [_big.contract("C05"), _big.bsdi_key_contract("C05")]
BOUNDED = [Bounded("c05", "harness/c05.py", descr="boundary-length multi-byte passwords on all truncating hashers; 4095/4096/4097; NUL positions", timeout=900)]

MUTANTS = [
    ("policy compares with >=", H, "        if cls.truncate_error and len(secret) > cls.truncate_size:\n", "        if cls.truncate_error and len(secret) >= cls.truncate_size:\n", "refute"),
    ("des_crypt checks the text length again", D, "            self._check_truncate_policy(\n                secret.encode(\"utf-8\") if isinstance(secret, str) else secret\n            )\n\n        return self._calc_checksum_backend(secret)", "            self._check_truncate_policy(secret)\n\n        return self._calc_checksum_backend(secret)", "refute"),
    ("crypt16 checks before encoding", D, "        if isinstance(secret, str):\n            secret = secret.encode(\"utf-8\")\n\n        # check for truncation (during .hash() calls only)\n        if self.use_defaults:\n            self._check_truncate_policy(secret)\n\n        # parse salt value", "        # check for truncation (during .hash() calls only)\n        if self.use_defaults:\n            self._check_truncate_policy(secret)\n\n        if isinstance(secret, str):\n            secret = secret.encode(\"utf-8\")\n\n        # parse salt value", "refute"),
    ("django_des_crypt skips the policy", DJ, "        if self.use_defaults:\n            self._check_truncate_policy(\n                secret.encode(\"utf-8\") if isinstance(secret, str) else secret\n            )\n        return des_crypt(", "        return des_crypt(", "refute"),
    ("lmhash checks before upper-casing/encoding", W, "            encoded = secret\n            if isinstance(encoded, str):\n                encoded = encoded.upper().encode(self.encoding)\n            self._check_truncate_policy(encoded)", "            self._check_truncate_policy(secret)", "refute"),
    ("validate_secret off by one", H, "    if len(secret) > MAX_PASSWORD_SIZE:\n        raise exc.PasswordSizeError(MAX_PASSWORD_SIZE)", "    if len(secret) > MAX_PASSWORD_SIZE + 1:\n        raise exc.PasswordSizeError(MAX_PASSWORD_SIZE)", "refute"),
]

# ---- bcrypt: order of checks in _norm_digest_args ------------------------------------------------------
B = "passlib/handlers/bcrypt.py"


def _prefix_preserving(name):
    def call(it, args, kwargs):
        src = it.resolve(args[0])
        r = fresh_str(it, name, "bytes")
        e = it.to_z3(src)
        # contract of the helper: at least 72 bytes... only the first 72 bytes matter to bcrypt; the helpers keep
        # the first min(len, 72) bytes of a long input (utf8_truncate may add up to 3 bytes after position 72)
        it.run.assume(z3.Implies(z3.Length(e) >= 72, z3.SubString(r.e, 0, 72) == z3.SubString(e, 0, 72)))
        return r

    return SStub(call, name, trusted=f"{name}: keeps the first 72 bytes")


ENC = "(secret.encode('utf-8') if isinstance(secret, str) else secret)"
for _ident in ("$2a$", "$2b$", "$2y$"):
    CONTRACTS.append(Contract(
        f"bcrypt._norm_digest_args[{_ident}]", f"{B}::_BcryptCommon._norm_digest_args",
        params={
            "cls": Obj(cls=(B, "_BcryptCommon"), is_class=True, fields={
                "_require_valid_utf8_bytes": Bool(), "_has_2a_wraparound_bug": Bool(), "_lacks_2b_support": Bool(), "_lacks_2y_support": Bool(),
                "_lacks_20_support": Bool(), "_fallback_ident": Union(Const("$2a$"), Const("$2b$")), "truncate_size": 72, "truncate_error": Bool(), "name": "bcrypt"}),
            "secret": Union(Str(), Bytes()), "ident": Const(_ident), "new": Bool(),
        },
        globals={"utf8_truncate": _prefix_preserving("utf8_truncate"), "utf8_repeat_string": _prefix_preserving("utf8_repeat_string"), "repeat_string": _prefix_preserving("repeat_string")},
        raises={  # most specific class first
            "PasswordTruncateError": f"len({ENC}) <= 4096 and new and cls.truncate_error and len({ENC}) > 72",
            "PasswordSizeError": f"len({ENC}) > 4096",
            "PasswordValueError": f"len({ENC}) <= 4096 and not (new and cls.truncate_error and len({ENC}) > 72) and b'\\x00' in {ENC}",
        },
        ensures=[
            ("accepted only within the size limit", f"len({ENC}) <= 4096"),
            ("accepted only if truncation is allowed or unnecessary", f"not (new and cls.truncate_error and len({ENC}) > 72)"),
            ("no NUL byte is handed to the backend", f"b'\\x00' not in {ENC}"),
            ("the backend sees the first 72 bytes of the encoded password", f"result[0][0:72] == {ENC}[0:72]"),
            ("ident handed to the backend is a supported one", "result[1] == ident or result[1] == cls._fallback_ident"),
        ],
        prune_timeout_ms=80,
        descr=f"ident {_ident}; text and bytes passwords; every backend capability flag combination",
    ))

MUTANTS += [
    ("bcrypt: NUL check before the size check is dropped for long input", B, "        if _BNULL in secret:\n            raise uh.exc.NullPasswordError(cls)\n", "        if _BNULL in secret[:72]:\n            raise uh.exc.NullPasswordError(cls)\n", "refute"),
    ("bcrypt: truncation policy also on verify", B, "        if new:\n            cls._check_truncate_policy(secret)\n", "        cls._check_truncate_policy(secret)\n", "refute"),
    ("bcrypt: wraparound workaround cuts at 71", B, "                secret = secret[:72]\n\n        # special case handling", "                secret = secret[:71]\n\n        # special case handling", "refute"),
]

# ---- bcrypt: the legacy $2$ variant (key cycled WITHOUT the NUL terminator) is emulated by repeating the password to 72 bytes -------
REP72 = z3.Function("password cycled to 72 bytes", z3.StringSort(), z3.StringSort())


UREP72 = z3.Function("password cycled to 72 bytes on a character boundary", z3.StringSort(), z3.StringSort())


def _rep_stub(name):
    fn = UREP72 if name.startswith("utf8") else REP72

    def call(it, args, kwargs):
        r = it.resolve(args[1])
        if r != 72:
            from pyvc.values import Unsupported
            raise Unsupported(f"{name} to {r!r} bytes")
        from pyvc.values import SStr as _S
        return _S(fn(it.to_z3(args[0])), "bytes")

    return SStub(call, name, trusted=f"{name}(s, 72): s cycled to at least 72 bytes (bcrypt reads 72)" + (", never cut inside a UTF-8 character (own contract, C02/C03)" if fn is UREP72 else ""))


bcrypt_2_contract = Contract(
    "bcrypt._norm_digest_args[$2$]", f"{B}::_BcryptCommon._norm_digest_args",
    params={
        "cls": Obj(cls=(B, "_BcryptCommon"), is_class=True, fields={
            "_require_valid_utf8_bytes": Bool(), "_has_2a_wraparound_bug": Const(False), "_lacks_2b_support": Bool(), "_lacks_2y_support": Bool(),
            "_lacks_20_support": Bool(), "_fallback_ident": Union(Const("$2a$"), Const("$2b$")), "truncate_size": 72, "truncate_error": Const(False), "name": "bcrypt"}),
        "secret": Bytes(), "ident": Const("$2$"), "new": Const(False),
    },
    globals={"utf8_truncate": _prefix_preserving("utf8_truncate"), "utf8_repeat_string": _rep_stub("utf8_repeat_string"), "repeat_string": _rep_stub("repeat_string")},
    raises={"PasswordSizeError": "len(secret) > 4096", "PasswordValueError": "b'\\x00' in secret"},
    ensures=[
        ("a backend without native $2$ support gets the password cycled to 72 bytes -- for EVERY non-empty password, on a character boundary exactly when the backend insists on valid UTF-8 -- under the fallback ident; a native backend gets it unchanged",
         lambda it, env: z3.And(
             z3.Implies(z3.And(it.to_zbool(it.truth(it.resolve(env.lookup("cls")).fields["_lacks_20_support"])), z3.Length(it.to_z3(env.lookup("secret"))) > 0),
                        # character-wise repetition only for a backend that insists on valid UTF-8 (and then only when the bytes ARE
                        # valid UTF-8, which the code tests itself); byte-wise otherwise
                        z3.Or(it.to_z3(it.static_items_req(it.resolve(env.lookup("result")))[0]) == REP72(it.to_z3(env.lookup("secret"))),
                              z3.And(it.to_zbool(it.truth(it.resolve(env.lookup("cls")).fields["_require_valid_utf8_bytes"])),
                                     it.to_z3(it.static_items_req(it.resolve(env.lookup("result")))[0]) == UREP72(it.to_z3(env.lookup("secret")))))),
             z3.Implies(z3.Not(it.to_zbool(it.truth(it.resolve(env.lookup("cls")).fields["_lacks_20_support"]))),
                        it.to_z3(it.static_items_req(it.resolve(env.lookup("result")))[0]) == it.to_z3(env.lookup("secret"))))),
        ("ident handed to the backend", "result[1] == (cls._fallback_ident if cls._lacks_20_support else '$2$')"),
    ],
    prune_timeout_ms=80,
    descr="ident $2$; every bytes password; backend with / without native support",
)
CONTRACTS.append(bcrypt_2_contract)
MUTANTS.append(("bcrypt $2$: passwords of 56..71 bytes are not cycled", B, "                if secret:\n                    if require_valid_utf8_bytes:", "                if secret and len(secret) < 56:\n                    if require_valid_utf8_bytes:", "refute", r"_norm_digest_args\[\$2\$\]"))

MUTANTS.append(("bcrypt $2$: byte-wise and character-wise repetition swapped", B, "                        secret = utf8_repeat_string(secret, 72)\n                    else:\n                        secret = repeat_string(secret, 72)", "                        secret = repeat_string(secret, 72)\n                    else:\n                        secret = utf8_repeat_string(secret, 72)", "refute", r"_norm_digest_args\[\$2\$\]"))

# ---- lmhash with a per-call encoding: the truncation policy counts the bytes of THAT encoding (the bytes that are hashed), not of
#      the class's default code page ----
lmhash_encoding = Contract(
    "lmhash._calc_checksum[encoding=utf-8]", f"{W}::lmhash._calc_checksum",
    params={"self": _self(W, "lmhash", encoding="utf-8", default_encoding="cp437", raw=SStub(lambda it, a, k: fresh_str(it, "raw", "bytes"), "lmhash.raw")), "secret": Union(Str(), Bytes())},
    globals={"hexlify": COMMON["hexlify"]},
    raises={"PasswordTruncateError": "self.use_defaults and self.truncate_error and (len(secret.upper().encode('utf-8')) if isinstance(secret, str) else len(secret)) > self.truncate_size",
            "UnicodeEncodeError": "isinstance(secret, str)"},
    ensures=[("accepted only when the password, upper-cased and encoded with the CALLER'S encoding, fits or truncation is allowed",
              "not (self.use_defaults and self.truncate_error and (len(secret.upper().encode('utf-8')) if isinstance(secret, str) else len(secret)) > self.truncate_size)")],
    descr="text and bytes passwords; encoding keyword utf-8, class default cp437",
)
CONTRACTS.append(lmhash_encoding)
MUTANTS.append(("lmhash: truncation check counts the bytes of the default code page", W, "                encoded = encoded.upper().encode(self.encoding)\n            self._check_truncate_policy(encoded)", "                encoded = encoded.upper().encode(self.default_encoding)\n            self._check_truncate_policy(encoded)", "refute", r"lmhash._calc_checksum\[encoding"))
