"""Salsa20/8 core, transcribed from RFC 7914 section 3 (the C reference), 32-bit vectors."""
import z3

# (target, a, b, rotation): x[target] ^= R(x[a] + x[b], rotation), in the RFC's order
DOUBLE_ROUND = [
    (4, 0, 12, 7), (8, 4, 0, 9), (12, 8, 4, 13), (0, 12, 8, 18),
    (9, 5, 1, 7), (13, 9, 5, 9), (1, 13, 9, 13), (5, 1, 13, 18),
    (14, 10, 6, 7), (2, 14, 10, 9), (6, 2, 14, 13), (10, 6, 2, 18),
    (3, 15, 11, 7), (7, 3, 15, 9), (11, 7, 3, 13), (15, 11, 7, 18),
    (1, 0, 3, 7), (2, 1, 0, 9), (3, 2, 1, 13), (0, 3, 2, 18),
    (6, 5, 4, 7), (7, 6, 5, 9), (4, 7, 6, 13), (5, 4, 7, 18),
    (11, 10, 9, 7), (8, 11, 10, 9), (9, 8, 11, 13), (10, 9, 8, 18),
    (12, 15, 14, 7), (13, 12, 15, 9), (14, 13, 12, 13), (15, 14, 13, 18),
]


def double_round(x):
    x = list(x)
    for t, a, b, r in DOUBLE_ROUND:
        x[t] = x[t] ^ z3.RotateLeft(x[a] + x[b], r)
    return x
