"""SASLprep written from RFC 4013 on top of the RFC 3454 tables in the stdlib `stringprep` module.
Passwords are "stored strings" (RFC 4013 section 2.5): unassigned code points (table A.1) are prohibited.
Shares nothing with passlib.

`ucd` selects the normaliser: RFC 3454 pins Unicode 3.2 (unicodedata.ucd_3_2_0), most implementations use
the current database; the two differ on five CJK compatibility ideographs only (Corrigendum #4)."""
import stringprep
import unicodedata


class Prohibited(ValueError):
    pass


def saslprep(s, allow_unassigned=False, ucd=unicodedata, b1_first=False, a1_on_output_only=False):
    # 2.1 mapping: C.1.2 -> SPACE, B.1 -> nothing
    # 2.5 / RFC 3454 section 7: a stored string MUST NOT contain unassigned code points.  Checked on the
    # input: a normaliser newer than Unicode 3.2 rewrites some of them into assigned characters (U+03F9 ->
    # U+03A3, U+1D2C -> 'A', ...) and a check on the output alone would then let them through.
    # a1_on_output_only reproduces that lenient reading (used by the harness to classify a mismatch).
    if not allow_unassigned and not a1_on_output_only:
        for ch in s:
            if stringprep.in_table_a1(ch):
                raise Prohibited("unassigned U+%04X" % ord(ch))
    # U+200B ZERO WIDTH SPACE is a member of both tables and RFC 4013 gives no precedence (libidn and
    # node-saslprep map it to SPACE, others drop it): b1_first selects the second reading
    out = []
    for ch in s:
        if b1_first and stringprep.in_table_b1(ch):
            continue
        if stringprep.in_table_c12(ch):
            out.append(" ")
        elif stringprep.in_table_b1(ch):
            continue
        else:
            out.append(ch)
    # 2.2 normalisation KC
    t = ucd.normalize("NFKC", "".join(out))
    # 2.3 prohibited output
    for ch in t:
        if (
            stringprep.in_table_c12(ch)
            or stringprep.in_table_c21(ch)
            or stringprep.in_table_c22(ch)
            or stringprep.in_table_c3(ch)
            or stringprep.in_table_c4(ch)
            or stringprep.in_table_c5(ch)
            or stringprep.in_table_c6(ch)
            or stringprep.in_table_c7(ch)
            or stringprep.in_table_c8(ch)
            or stringprep.in_table_c9(ch)
        ):
            raise Prohibited("prohibited U+%04X" % ord(ch))
        # 2.5 unassigned code points
        if not allow_unassigned and stringprep.in_table_a1(ch):
            raise Prohibited("unassigned U+%04X" % ord(ch))
    # 2.4 bidi (RFC 3454 section 6)
    has_ral = any(stringprep.in_table_d1(ch) for ch in t)
    has_l = any(stringprep.in_table_d2(ch) for ch in t)
    if has_ral:
        if has_l:
            raise Prohibited("RandALCat together with LCat")
        if not (stringprep.in_table_d1(t[0]) and stringprep.in_table_d1(t[-1])):
            raise Prohibited("RandALCat string must start and end with RandALCat")
    return t
