"""MD5-crypt (Poul-Henning Kamp, FreeBSD libcrypt crypt-md5.c) as a spec, and the contract for passlib's _raw_md5_crypt.

Published algorithm, with H abstract (16 byte digests):
  B   = H(pwd + salt + pwd)
  A   = H(pwd + magic + salt + B repeated to len(pwd) + for each bit of len(pwd), low to high: NUL if set else pwd[:1])
  C0  = A;  C(i+1) = H((pwd if i odd else Ci) + (salt if i % 3) + (pwd if i % 7) + (Ci if i odd else pwd)),  i = 0 .. 999
  out = transposed hash64 encoding of C(1000)

passlib runs the 1000 rounds as 23 blocks of 21 precomputed (even, odd) pairs plus 17 pairs; both loops have concrete
trip counts, so they are unrolled and every pair is tied to two rounds of the published recurrence by a ghost lock-step
obligation (500 of them).
"""
import z3

from pyvc.contract import Bytes, Const, Contract, Loop, Str
from pyvc.values import SObj, SStr, SStub
from contracts.shacrypt import D, ENC, Hf, RTL, hash_ctor, rtl, table_id

S = z3.StringSort()
WALK0 = z3.Function("md5_bitwalk", S, z3.IntSort(), S)
CM = z3.Function("C_md5", S, S, S, z3.IntSort(), S)
NUL = z3.Unit(z3.CharVal(0)) if hasattr(z3, "CharVal") else z3.StringVal("\x00")


def walk0(it, pwd, i):
    w = WALK0(pwd, i)
    it.run.assume(w == z3.If(i <= 0, z3.StringVal(""), z3.Concat(z3.If(i % 2 == 1, NUL, z3.SubString(pwd, 0, 1)), WALK0(pwd, i / 2))))
    return w


def Cm(it, da, pwd, salt, i):
    """C(i) with one unfolding at the concrete index i"""
    c = CM(da, pwd, salt, z3.IntVal(i))
    if i <= 0:
        it.run.assume(c == da)
    else:
        j = i - 1
        prev = CM(da, pwd, salt, z3.IntVal(j))
        if j == 0:
            it.run.assume(prev == da)
        parts = [pwd if j % 2 else prev]
        if j % 3:
            parts.append(salt)
        if j % 7:
            parts.append(pwd)
        parts.append(prev if j % 2 else pwd)
        it.run.assume(c == Hf(z3.Concat(*parts)))
    it.run.assume(z3.Length(c) == 16)
    return c


def contract(prop, use_apr):
    from pyvc import extract
    tid = table_id(extract.module_constant("passlib/handlers/md5_crypt.py", "_transpose_map"))
    magic = extract.module_constant("passlib/handlers/md5_crypt.py", "_APR_MAGIC" if use_apr else "_MD5_MAGIC")

    def walk_spec(it, args, kwargs):
        return SStr(walk0(it, it.to_z3(args[0]), it.to_z3(args[1], "int")), "bytes")

    def rtl_spec(it, args, kwargs):
        return SStr(rtl(it, it.to_z3(args[0]), it.to_z3(args[1], "int")), "bytes")

    def pair_cut(base_expr):
        def cut(it, env, k):
            da, pwd, salt = (it.to_z3(env.lookup(v)) for v in ("da", "pwd", "salt"))
            n = it.spec_eval(base_expr, env)
            assert isinstance(n, int), "block counter must be concrete"
            Cm(it, da, pwd, salt, n + 2 * k + 1)
            want = Cm(it, da, pwd, salt, n + 2 * k + 2)
            it.run.oblige("ghost-lock-step", it.to_z3(env.lookup("dc")) == want, f"pair {k} of block at round {n} == published rounds {n + 2 * k}, {n + 2 * k + 1}", it.lineno)
            env.set("dc", SStr(want, "bytes"))
            it.run.ghost["rounds_done"] = n + 2 * k + 2

        return cut

    def setup(it, args):
        it.run.assume(D == 16)
        it.run.ghost["D"] = 16
        return None

    def post(it, env):
        p = it.to_z3(env.lookup("pwd"))
        sl = it.to_z3(env.lookup("salt"))
        n = z3.Length(p)
        h = lambda x: (it.run.assume(z3.Length(Hf(x)) == 16), Hf(x))[1]
        B = h(z3.Concat(p, sl, p))
        A = h(z3.Concat(p, z3.StringVal(magic.decode("latin-1")), sl, rtl(it, B, n), walk0(it, p, n)))
        want = ENC(CM(A, p, sl, z3.IntVal(1000)), z3.IntVal(tid))
        return z3.And(z3.BoolVal(it.run.ghost.get("rounds_done") == 1000), it.to_z3(env.lookup("result")) == want)

    def enc_stub(it, a, k):
        table = it.resolve(a[1])
        t = table_id(tuple(it.static_items_req(table)))
        r = SStr(ENC(it.to_z3(a[0]), z3.IntVal(t)), "bytes")
        it.run.assume(it.all_codes_below(r.e, 128))
        return r

    ctor = hash_ctor(None)
    engine = SObj("h64", fields={"encode_transposed_bytes": SStub(enc_stub, "encode_transposed_bytes", trusted="C12: transposed encoding, uninterpreted here; table derived from the published output order separately")})
    g = {
        "md5": ctor,
        "h64": engine,
        "repeat_string": SStub(lambda it, a, k: SStr(rtl(it, it.to_z3(a[0]), it.to_z3(a[1], "int")), "bytes"), "repeat_string", trusted="repeat_string(s, n): uninterpreted on both sides"),
    }
    fn = "_raw_md5_crypt"
    return Contract(
        f"passlib._raw_md5_crypt[use_apr={use_apr}]", "passlib/handlers/md5_crypt.py::_raw_md5_crypt",
        params={"pwd": Bytes(), "salt": Str(), "use_apr": Const(use_apr)},
        setup=setup,
        globals=g,
        specs={"walk": walk_spec, "rtl": rtl_spec},
        requires=["len(salt) < 9", "b'\\x00' not in pwd", lambda it, env: it.all_codes_below(it.to_z3(env.lookup("salt")), 128)],
        loops={
            f"{fn}#0": Loop(invariant=["a_ctx.view + walk(pwd, i) == pwd + magic + salt + rtl(db, pwd_len) + walk(pwd, pwd_len)", "i >= 0", "evenchar == pwd[:1]"],
                            modifies=["i", "a_ctx.view"], decreases="i"),
            f"{fn}#2": Loop(ghost_step=pair_cut("42 * (23 - blocks)")),
            f"{fn}#3": Loop(ghost_step=pair_cut("966")),
        },
        ensures=[("all 1000 published rounds were performed and result == transposed encoding of C(1000) with A, B as published", post)],
        max_paths=50, time_budget=600, prune_timeout_ms=100, tier="quick", prop=prop, replay=_replay(use_apr),
        descr="every password without NUL, every ASCII salt <= 8 characters; MD5 abstract (any function with 16-byte digests)",
    )


_REF = r"""
import hashlib
from passlib.handlers.md5_crypt import _raw_md5_crypt
def ref(pwd, salt, magic):
    H = lambda b: hashlib.md5(b).digest()
    n = len(pwd); B = H(pwd + salt + pwd)
    walk = b""; i = n
    while i > 0:
        walk += b"\0" if i & 1 else pwd[:1]; i >>= 1
    c = H(pwd + magic + salt + (B * (n // 16 + 1))[:n] + walk)
    for i in range(1000):
        c = H((pwd if i & 1 else c) + (salt if i % 3 else b"") + (pwd if i % 7 else b"") + (c if i & 1 else pwd))
    itoa = "./0123456789ABCDEFGHIJKLMNOPQRSTUVWXYZabcdefghijklmnopqrstuvwxyz"
    out = ""
    for a, b, cc in [(0, 6, 12), (1, 7, 13), (2, 8, 14), (3, 9, 15), (4, 10, 5)]:
        v = (c[a] << 16) | (c[b] << 8) | c[cc]
        for _ in range(4): out += itoa[v & 63]; v >>= 6
    v = c[11]
    for _ in range(2): out += itoa[v & 63]; v >>= 6
    return out
"""


def _search(values):
    out = []
    for pwd in ("a", "ab", "password", "x" * 15, "y" * 16, "z" * 17, "p" * 63, "\u00e9\u00ff"):
        for salt in ("", "b", "saltsalt"):
            out.append(dict(values, pwd=pwd, salt=salt))
    return out


def _replay(use_apr):
    from pyvc.replay import py_replay
    magic = "b'$apr1$'" if use_apr else "b'$1$'"
    return py_replay(_REF, f"r = (_raw_md5_crypt(V['pwd'].encode('latin-1'), V['salt'], use_apr={use_apr}), ref(V['pwd'].encode('latin-1'), V['salt'].encode('ascii'), {magic}))",
                     "exc is None and r[0] == r[1]", {"pwd": "a", "salt": "b"}, search=_search)


PUBLISHED_MD5 = [(0, 6, 12), (1, 7, 13), (2, 8, 14), (3, 9, 15), (4, 10, 5)]
PUBLISHED_SHA256 = [(0, 10, 20), (21, 1, 11), (12, 22, 2), (3, 13, 23), (24, 4, 14), (15, 25, 5), (6, 16, 26), (27, 7, 17), (18, 28, 8), (9, 19, 29)]
PUBLISHED_SHA512 = [(0, 21, 42), (22, 43, 1), (44, 2, 23), (3, 24, 45), (25, 46, 4), (47, 5, 26), (6, 27, 48), (28, 49, 7), (50, 8, 29), (9, 30, 51), (31, 52, 10),
                    (53, 11, 32), (12, 33, 54), (34, 55, 13), (56, 14, 35), (15, 36, 57), (37, 58, 16), (59, 17, 38), (18, 39, 60), (40, 61, 19), (62, 20, 41)]


def published_tables():
    """the transposition tables equal the output order of the published algorithms: to64((f[a]<<16)|(f[b]<<8)|f[c], 4) emits
    the low six bits first, i.e. passlib's little-endian 24-bit group over bytes (f[c], f[b], f[a])"""
    from pyvc import extract

    def derive(triples, tail):
        out = []
        for a, b, c in triples:
            out += [c, b, a]
        return tuple(out + list(tail))

    want = {
        ("passlib/handlers/md5_crypt.py", "_transpose_map"): derive(PUBLISHED_MD5, [11]),
        ("passlib/handlers/sha2_crypt.py", "_256_transpose_map"): derive(PUBLISHED_SHA256, [30, 31]),
        ("passlib/handlers/sha2_crypt.py", "_512_transpose_map"): derive(PUBLISHED_SHA512, [63]),
        ("libpass/hashers/sha_crypt.py", "_256_transpose_map"): derive(PUBLISHED_SHA256, [30, 31]),
        ("libpass/hashers/sha_crypt.py", "_512_transpose_map"): derive(PUBLISHED_SHA512, [63]),
    }
    fails, cases = [], 0
    for (f, name), w in want.items():
        got = tuple(extract.module_constant(f, name))
        cases += len(w)
        if got != w:
            fails.append({"key": f"transpose-table:{f}:{name}", "what": "table differs from the published output order", "witness": {"got": list(got), "want": list(w)}})
    return {"cases": cases, "failures": fails, "samples": [{"md5": list(derive(PUBLISHED_MD5, [11]))}]}
