"""C03 -- all backends of a hash agree and every advertised backend works."""
import z3

from contracts.trusted import may_fail
from pyvc.contract import Bool, Const, Contract, Int, NoneT, Obj, Str, Union
from pyvc.runner import Bounded
from pyvc.values import SBool, SDict, SObj, SStr, SStub

LEVEL = "other"
H = "passlib/utils/handlers.py"
EXPLANATION = (
    "Agreement of libcrypt / OpenSSL / bcrypt-C with the Python code is foreign code and is decided by the bounded "
    "stand-in (every ordered pair of loadable backends on enumerated inputs, switching sequences, independent oracles). "
    "Proved part: the backend state machine of BackendMixin (set_backend for a named backend, has_backend, "
    "_set_backend) from its real source with the loader free to succeed, report 'not available' or raise: after a "
    "successful non-dry set_backend(name) the active backend is name; a dry run (has_backend) leaves the active "
    "backend untouched; _pending_backend / _pending_dry_run are restored on EVERY exit path including exceptional ones; "
    "an unavailable backend raises MissingBackendError, an unknown name a ValueError; a loader returning neither True "
    "nor False is an internal error (excluded by the loaders' own contract); set_backend('any'/'default') picks the first available "
    "backend in declaration order and every loader consulted sees the caller's dry-run flag; a class that does not own the "
    "backend state forwards name and dry-run flag unchanged to the owner; bcrypt's pure-python loader binds the routine its "
    "checksum code calls; bcrypt's lazy-loading stub (_NoBackend._calc_checksum, with the run-time rebinding of the class bases "
    "modelled) loads once and hands the caller's secret to the loaded backend exactly once, never re-entering a subclass wrapper."
)
ASSUMPTIONS = [
    "loaders return True / False or raise MissingBackendError / PasslibSecurityError (each _load_backend_* body ends in _finalize_backend_mixin or an import probe)",
    "sequential execution: the global backend lock is a no-op",
]


def _setup(it, args):
    cls = args["cls"]
    active = Union(NoneT(), Const("os_crypt"), Const("builtin")).make(it, "active_backend")
    cls.fields.update({"__backend": active, "_BackendMixin__backend": active, "backends": ("os_crypt", "builtin"), "_pending_backend": Union(NoneT(), Const("builtin")).make(it, "pending0"),
                       "_pending_dry_run": Bool().make(it, "pending_dry0"), "name": "handler", "_no_backend_suggestion": None})
    outcome = {}

    def loader(it2, a, k):
        it2.run.calls.append(("loader", ()))
        outcome["name"] = k.get("name")
        outcome["dryrun"] = k.get("dryrun")
        may_fail(it2, "MissingBackendError", "loader")
        may_fail(it2, "PasslibSecurityError", "loader.sec")
        ok = SBool(z3.Bool("loader_ok"))
        return ok

    cls.fields["_get_backend_loader"] = SStub(lambda it2, a, k: SStub(loader, "backend loader"), "_get_backend_loader")
    it.run.ghost.update({"active0": active, "pending0": cls.fields["_pending_backend"], "dry0": cls.fields["_pending_dry_run"], "outcome": outcome})
    return {"loader_ok": SBool(z3.Bool("loader_ok")), "active0": active}


def _restored(it, env):
    cls = env.lookup("cls")
    g = it.run.ghost
    return z3.And(it.to_zbool(it.truth(it.compare("Is", cls.fields["_pending_backend"], g["pending0"])) if False else it.to_zbool(it.truth(it.cmp_vals("==", cls.fields["_pending_backend"], g["pending0"])))),
                  it.to_zbool(it.truth(it.cmp_vals("==", cls.fields["_pending_dry_run"], g["dry0"]))))


def _active_is(expr):
    def f(it, env):
        cls = env.lookup("cls")
        return it.truth(it.cmp_vals("==", cls.fields["__backend"], it.spec_eval(expr, env)))

    return f


def _active_unchanged(it, env):
    cls = env.lookup("cls")
    return it.truth(it.cmp_vals("==", cls.fields["__backend"], it.run.ghost["active0"]))


G = {"_backend_lock": SObj("lock"), "accepts_keyword": SStub(lambda it, a, k: True, "accepts_keyword")}
NAME = Union(Const("os_crypt"), Const("builtin"), Const("nonexistent"))

CONTRACTS = [
    Contract(
        "BackendMixin.set_backend[named]", f"{H}::BackendMixin.set_backend",
        params={"cls": Obj(cls=(H, "BackendMixin"), is_class=True), "name": NAME, "dryrun": Bool()},
        setup=_setup, globals=G,
        raises={"MissingBackendError": _restored, "PasslibSecurityError": _restored, "ValueError": lambda it, env: z3.And(it.to_zbool(it.truth(it.cmp_vals("==", env.lookup("name"), "nonexistent"))), _restored(it, env)),
                "AssertionError": lambda it, env: False},
        requires=["loader_ok"],  # loaders return True or False; False is covered by the next contract
        ensures=[
            ("pending markers restored", _restored),
            ("result is the requested name", "result == name"),
            ("after a non-dry switch the active backend is the requested one", lambda it, env: z3.Implies(z3.Not(it.to_zbool(it.truth(env.lookup("dryrun")))), it.to_zbool(_active_is("name")(it, env)))),
            ("a dry run leaves the active backend untouched", lambda it, env: z3.Implies(it.to_zbool(it.truth(env.lookup("dryrun"))), it.to_zbool(_active_unchanged(it, env)))),
        ],
        descr="named backend; loader may raise MissingBackendError / PasslibSecurityError; any previous active backend",
    ),
    Contract(
        "BackendMixin.set_backend[loader reports unavailable]", f"{H}::BackendMixin.set_backend",
        params={"cls": Obj(cls=(H, "BackendMixin"), is_class=True), "name": Union(Const("os_crypt"), Const("builtin")), "dryrun": Bool()},
        setup=_setup, globals=G,
        requires=["not loader_ok", "active0 != name"],
        raises={"MissingBackendError": lambda it, env: z3.And(_restored(it, env), it.to_zbool(_active_unchanged(it, env))), "PasslibSecurityError": lambda it, env: z3.And(_restored(it, env), it.to_zbool(_active_unchanged(it, env)))},
        ensures=[("an unavailable backend is never installed", "False")],
        descr="loader returns False",
    ),
    Contract(
        "BackendMixin.has_backend", f"{H}::BackendMixin.has_backend",
        params={"cls": Obj(cls=(H, "BackendMixin"), is_class=True), "name": Union(Const("os_crypt"), Const("builtin"))},
        setup=_setup, globals=G,
        ensures=[
            ("has_backend never changes the active backend (dry run)", _active_unchanged),
            ("pending markers restored", _restored),
            ("False when the loader reports the backend unavailable", "implies(not loader_ok and active0 != name, result is False)"),
            ("the loader, if consulted, was asked for a dry run", lambda it, env: True if it.run.ghost["outcome"].get("dryrun") is None else it.truth(it.run.ghost["outcome"]["dryrun"])),
        ],
        raises={"AssertionError": lambda it, env: False},
        descr="any loader outcome",
    ),
]

from contracts import c11 as _c11  # noqa: E402

# sha1_crypt's builtin backend keys its HMAC with the password: RFC 2104 key handling (shared with C11) is what makes it agree with crypt(3)
CONTRACTS += [c for c in _c11.CONTRACTS if c.id == "compile_hmac"]
BOUNDED = [Bounded("c03", "harness/c03.py", descr="every ordered pair of loadable backends, switching sequences, independent oracles", timeout=900)]

MUTANTS = [
    ("set_backend: pending markers not restored on failure", H, "            try:\n                cls._pending_backend = name\n                cls._pending_dry_run = dryrun\n                cls._set_backend(name, dryrun)\n            finally:\n                cls._pending_backend, cls._pending_dry_run = orig\n", "            cls._pending_backend = name\n            cls._pending_dry_run = dryrun\n            cls._set_backend(name, dryrun)\n            cls._pending_backend, cls._pending_dry_run = orig\n", "refute"),
    ("set_backend: dry run switches the active backend", H, "            if not dryrun:\n                cls.__backend = name\n            return name", "            cls.__backend = name\n            return name", "refute"),
    ("has_backend: real switch instead of dry run", H, "            cls.set_backend(name, dryrun=True)\n            return True", "            cls.set_backend(name)\n            return True", "refute"),
    ("_set_backend: unavailable backend accepted", H, "        if ok is False:\n            raise exc.MissingBackendError(f\"{cls.name}: backend not available: {name}\")", "        if ok is None:\n            raise exc.MissingBackendError(f\"{cls.name}: backend not available: {name}\")", "refute"),
]

# ---- typestate between a loader and its user: bcrypt's pure-python backend -----------------------------------
B = "passlib/handlers/bcrypt.py"


def _import_hook(it, name):
    from pyvc.values import SModule
    from pyvc.ops import _module_file
    f = _module_file(name)
    if f is None:
        from pyvc.values import Unsupported
        raise Unsupported(f"import {name}")
    return SModule(name, {"__file__": f})


def _builtin_setup(it, args):
    from pyvc.values import SModule
    env_val = Union(NoneT(), Const("1"), Const("0"), Const("true")).make(it, "PASSLIB_BUILTIN_BCRYPT")
    it.genv.vars["os"] = SModule("os", {"environ": SObj("environ", fields={"get": SStub(lambda i, a, k: env_val, "os.environ.get")})})
    it.genv.vars["_builtin_bcrypt"] = None
    args["mixin_cls"].fields["_finalize_backend_mixin"] = SStub(lambda i, a, k: SBool(z3.Bool("finalize_ok")), "_finalize_backend_mixin")
    return {"env_val": env_val}


CONTRACTS.append(Contract(
    "bcrypt._BuiltinBackend._load_backend_mixin", f"{B}::_BuiltinBackend._load_backend_mixin",
    params={"mixin_cls": Obj(is_class=True), "name": Const("builtin"), "dryrun": Bool()},
    setup=_builtin_setup,
    globals={"__import__": _import_hook, "log": SObj("log", fields={"debug": SStub(lambda i, a, k: None, "log.debug")})},
    ensures=[
        ("a loader that reports success has bound the routine its _calc_checksum calls", lambda it, env: z3.Implies(it.to_zbool(it.truth(env.lookup("result"))), z3.BoolVal(it.genv.vars.get("_builtin_bcrypt") is not None))),
        ("not enabled through the environment: reported unavailable", "implies(env_val is None or env_val == '0', result is False)"),
    ],
    descr="PASSLIB_BUILTIN_BCRYPT unset / '0' / '1' / 'true'; backend self-test free to pass or fail",
))

MUTANTS.append(("bcrypt builtin loader forgets to import raw_bcrypt", B, "        global _builtin_bcrypt\n        from passlib.crypto._blowfish import raw_bcrypt as _builtin_bcrypt\n", "        global _builtin_bcrypt\n", "refute", "_BuiltinBackend"))


# ---- the lazy-loading stub dispatches to the loaded backend, exactly once, with the caller's secret ----------------
def _nobackend_setup(it, args):
    from pyvc.symexec import ClassRef

    bref = ClassRef.get(B, "bcrypt")
    bref.override_bases = None  # before loading: (_NoBackend, _BcryptCommon), as in the source
    self = args["self"]

    def load(i, a, k):
        # BackendMixin.set_backend -> SubclassBackendMixin._set_backend rebinds bcrypt.__bases__ to the loaded mixin
        bref.override_bases = [ClassRef.get(B, "_BcryptBackend"), ClassRef.get(B, "_BcryptCommon")]
        i.run.ghost["loaded"] = i.run.ghost.get("loaded", 0) + 1

    def reentered(i, a, k):
        i.run.ghost["reentered"] = True
        return SStr(z3.String("wrapped(secret)"), "str")

    def hashpw(i, a, k):
        i.run.ghost.setdefault("hashpw", []).append(i.resolve(a[0]))
        cfg = i.to_z3(a[1])
        tail = z3.String(i.run.fresh("digest31"))
        i.run.assume(z3.And(z3.Length(tail) == 31, i.all_codes_below(tail, 128)))
        return SStr(z3.Concat(cfg, tail), "bytes")

    self.fields["_stub_requires_backend"] = SStub(load, "_stub_requires_backend (loads the bcrypt-package backend)")
    # the most-derived class (bcrypt_sha256) wraps _calc_checksum; modelled as an instance attribute so that only a
    # dynamic ``self._calc_checksum`` can reach it, never a super() lookup
    self.fields["_calc_checksum"] = SStub(reentered, "bcrypt_sha256._calc_checksum (pre-hashing wrapper)")
    self.fields["_prepare_digest_args"] = SStub(lambda i, a, k: (a[0], "2b"), "_prepare_digest_args")
    self.fields["_get_config"] = SStub(lambda i, a, k: SStr(z3.String("config"), "bytes"), "_get_config")
    it.genv.vars["_bcrypt"] = SObj("bcrypt package", fields={"hashpw": SStub(hashpw, "bcrypt.hashpw")})
    return None


def _nobackend_post(it, env):
    g = it.run.ghost
    calls = g.get("hashpw", [])
    if g.get("reentered") or g.get("loaded") != 1 or len(calls) != 1:
        return False
    secret = it.to_z3(env.lookup("secret"))
    return it.to_z3(calls[0]) == z3.SubString(secret, 0, z3.If(z3.Length(secret) < 72, z3.Length(secret), 72))


from pyvc.contract import Bytes  # noqa: E402
from pyvc.values import SStr  # noqa: E402

CONTRACTS.append(Contract(
    "bcrypt._NoBackend._calc_checksum", f"{B}::_NoBackend._calc_checksum",
    params={"self": Obj(cls=(B, "bcrypt")), "secret": Bytes()},
    setup=_nobackend_setup,
    raises={"ValueError": None},
    ensures=[("the first call loads the backend once and hands the caller's secret (first 72 bytes) to it exactly once, without re-entering the subclass's wrapper", _nobackend_post)],
    descr="every secret; bcrypt-package backend loaded by the stub (class bases rebound as set_backend does)",
))
MUTANTS.append(("bcrypt lazy stub re-enters the most-derived _calc_checksum", B, "        return super(bcrypt, self)._calc_checksum(secret)", "        return self._calc_checksum(secret)", "refute", "_NoBackend"))


# ---- set_backend on a class that does not own the backend state (bcrypt_sha256 -> bcrypt), and 'any' / 'default' --------------
def _fwd_setup(it, args):
    _setup(it, args)
    cls = args["cls"]
    seen = []

    def owner_set_backend(i, a, k):
        seen.append((i.resolve(a[0]) if a else k.get("name"), k.get("dryrun", a[1] if len(a) > 1 else False)))
        return SStr(z3.String("owner.set_backend(...)"), "str")

    owner = SObj("owner class", is_class=True, fields={"set_backend": SStub(owner_set_backend, "owner.set_backend")})
    cls.fields["_get_backend_owner"] = SStub(lambda i, a, k: owner, "_get_backend_owner")
    it.run.ghost["forwarded"] = seen
    return {"loader_ok": SBool(z3.Bool("loader_ok")), "active0": it.run.ghost["active0"]}


def _fwd_post(it, env):
    seen = it.run.ghost["forwarded"]
    if len(seen) != 1:
        return False
    name, dry = seen[0]
    return z3.And(it.to_zbool(it.truth(it.cmp_vals("==", name, env.lookup("name")))), it.to_zbool(it.truth(dry)) == it.to_zbool(it.truth(env.lookup("dryrun"))),
                  it.to_z3(env.lookup("result")) == z3.String("owner.set_backend(...)"), it.to_zbool(_active_unchanged(it, env)), _restored(it, env))


CONTRACTS.append(Contract(
    "BackendMixin.set_backend[forwarded to the owning class]", f"{H}::BackendMixin.set_backend",
    params={"cls": Obj(cls=(H, "BackendMixin"), is_class=True), "name": Union(Const("os_crypt"), Const("builtin")), "dryrun": Bool()},
    setup=_fwd_setup, globals=G,
    requires=["active0 != name"],
    ensures=[("the owner is asked exactly once, for the same backend and with the SAME dry-run flag; this class's own state is untouched", _fwd_post)],
    descr="a derived hasher (bcrypt_sha256, bcrypt.using(...)) probing or switching the shared backend",
))


def _any_setup(it, args):
    cls = args["cls"]
    active = Union(NoneT(), Const("os_crypt"), Const("builtin")).make(it, "active_backend")
    cls.fields.update({"__backend": active, "_BackendMixin__backend": active, "backends": ("os_crypt", "builtin"), "_pending_backend": None, "_pending_dry_run": False, "name": "handler", "_no_backend_suggestion": None})
    ok = {"os_crypt": z3.Bool("ok[os_crypt]"), "builtin": z3.Bool("ok[builtin]")}
    asked = []

    def get_loader(i, a, k):
        nm = i.resolve(a[0])

        def loader(i2, a2, k2):
            asked.append((nm, k2.get("dryrun")))
            return SBool(ok[nm])

        return SStub(loader, f"loader[{nm}]")

    cls.fields["_get_backend_loader"] = SStub(get_loader, "_get_backend_loader")
    it.run.ghost.update({"active0": active, "asked": asked, "pending0": None, "dry0": False})
    return {"ok_os": SBool(ok["os_crypt"]), "ok_builtin": SBool(ok["builtin"]), "active0": active}


def _any_post(it, env):
    g = it.run.ghost
    dry = it.to_zbool(it.truth(env.lookup("dryrun")))
    same_flag = z3.And(*[it.to_zbool(it.truth(d)) == dry for _, d in g["asked"]]) if g["asked"] else z3.BoolVal(True)
    cls = env.lookup("cls")
    return z3.And(same_flag, z3.Implies(z3.Not(dry), it.to_zbool(it.truth(it.cmp_vals("==", cls.fields["__backend"], env.lookup("result"))))), z3.Implies(dry, it.to_zbool(_active_unchanged(it, env))))


for _nm in ("any", "default"):
    CONTRACTS.append(Contract(
        f"BackendMixin.set_backend[{_nm}]", f"{H}::BackendMixin.set_backend",
        params={"cls": Obj(cls=(H, "BackendMixin"), is_class=True), "name": Const(_nm), "dryrun": Bool()},
        setup=_any_setup, globals=G, max_depth=6,
        raises={"MissingBackendError": "not ok_os and not ok_builtin"},
        ensures=[
            ("the first available backend in declaration order is chosen (an already active one is kept for 'any')",
             "result == (active0 if (name == 'any' and active0 is not None) else ('os_crypt' if (ok_os or active0 == 'os_crypt') else 'builtin'))"),
            ("every loader consulted sees the caller's dry-run flag; a non-dry call leaves the result active, a dry run changes nothing", _any_post),
        ],
        descr="two declared backends, each available or not; any previously active backend",
    ))

MUTANTS += [
    ("set_backend: forwarding to the owner drops the dry-run flag", H, "            return owner.set_backend(name, dryrun=dryrun)", "            return owner.set_backend(name)", "refute", "forwarded"),
    ("set_backend('any'): probing loop drops the dry-run flag", H, "                    return cls.set_backend(name, dryrun=dryrun)", "                    return cls.set_backend(name)", "refute", r"set_backend\[(any|default)"),
]


# ---- utf8_repeat_string: the text handed to utf8_truncate is a whole number of copies (so a character cut at `size` can be completed) ----
U = "passlib/utils/__init__.py"


def _urs_setup(it, args):
    seen = {}

    def trunc(i, a, k):
        seen["arg"], seen["index"] = i.resolve(a[0]), i.resolve(a[1])
        return SStr(z3.String("truncated"), "bytes")

    def rep(i, a, k):
        r = SStr(z3.String(i.run.fresh("repeat_string")), "bytes")
        i.run.assume(z3.Length(r.e) == i.to_z3(a[1], "int"))  # repeat_string cuts at exactly `size` bytes
        return r

    it.genv.vars["utf8_truncate"] = SStub(trunc, "utf8_truncate")
    it.genv.vars["repeat_string"] = SStub(rep, "repeat_string")
    it.run.ghost["seen"] = seen
    return None


CONTRACTS.append(Contract(
    "utf8_repeat_string", f"{U}::utf8_repeat_string",
    params={"source": Bytes(), "size": Int(lo=1)},
    setup=_urs_setup,
    requires=["len(source) > 0"],
    ensures=[("utf8_truncate receives mult = 1 + (size - 1) // len(source) WHOLE copies of the source and cuts at `size` (lemma: that is at least `size` bytes), so a multi-byte character straddling the cut can be completed (bcrypt's $2$ emulation under a UTF-8-only backend)",
              lambda it, env: z3.And(z3.Length(it.to_z3(it.run.ghost["seen"]["arg"])) == (1 + (it.to_z3(env.lookup("size"), "int") - 1) / z3.Length(it.to_z3(env.lookup("source")))) * z3.Length(it.to_z3(env.lookup("source"))),
                                     it.to_z3(it.run.ghost["seen"]["index"], "int") == it.to_z3(env.lookup("size"), "int")))],
    descr="every non-empty source, every size >= 1",
))
MUTANTS.append(("utf8_repeat_string: the repeated text is cut at `size` before utf8_truncate sees it", U, "    return utf8_truncate(source * mult, size)", "    return utf8_truncate(repeat_string(source, size), size)", "refute", "utf8_repeat_string"))


def _whole_copies():
    L, n = z3.Ints("len_source size")
    m = 1 + (n - 1) / L
    return [("mult copies are at least `size` bytes", [L >= 1, n >= 1], m * L >= n), ("mult copies end on a copy boundary", [L >= 1, n >= 1], (m * L) % L == 0)]


from pyvc.contract import Lemma as _Lemma  # noqa: E402

LEMMAS = list(globals().get("LEMMAS", [])) + [_Lemma("utf8-repeat-whole-copies", _whole_copies, "arithmetic of utf8_repeat_string's multiplier")]

from contracts import c01 as _c01sc  # noqa: E402

CONTRACTS += [c for c in _c01sc.CONTRACTS if c.id.startswith("safe_crypt[")]  # undecodable bytes -> None -> the built-in implementation takes over

from contracts import c05 as _c05b3  # noqa: E402

CONTRACTS += [_c05b3.bcrypt_2_contract]  # backends without native $2$ support all get the same emulated input (byte- / character-wise repetition per backend requirement)
