#!/usr/bin/env python3
"""Apply each seeded change to /repo, run the property's check, undo it.  Usage: try_seeded.py <dir with patch/demo> <Cxx> [--tier quick]
Prints one line per patch: demo exit codes (changed / clean) and whether the check raised VIOLATION."""
import glob, json, os, subprocess, sys, time
src, pid = sys.argv[1], sys.argv[2]
tier = sys.argv[4] if len(sys.argv) > 4 else "quick"
def sh(cmd, **kw):
    return subprocess.run(cmd, shell=True, capture_output=True, text=True, **kw)
assert sh("git -C /repo status --porcelain").stdout.strip() == "", "/repo not clean"
out = {}
for patch in sorted(glob.glob(os.path.join(src, "patch*.diff"))):
    tag = os.path.basename(patch)[6:-5] or "X"
    demo = os.path.join(src, f"demo_{tag}.py") if tag != "X" else os.path.join(src, "demo.py")
    r = sh(f"git -C /repo apply {patch}")
    if r.returncode:
        print(pid, tag, "PATCH DOES NOT APPLY", r.stderr[:200]); continue
    try:
        d1 = sh(f"cd /repo && PYTHONPATH=/repo /venv/bin/python {demo}", timeout=600).returncode
        t0 = time.time()
        c = sh(f"cd /verif && PYVC_EVIDENCE_DIR=/tmp/seed_ev_{pid}_{tag} ./check {pid} --tier {tier}", timeout=3000)
        dt = time.time() - t0
    finally:
        sh("git -C /repo checkout -- .")
    d0 = sh(f"cd /repo && PYTHONPATH=/repo /venv/bin/python {demo}", timeout=600).returncode
    viol = [l for l in c.stdout.splitlines() if l.startswith("VIOLATION")]
    print(pid, tag, f"demo changed={d1} clean={d0}", f"check rc={c.returncode} violations={len(viol)} ({dt:.0f}s)", viol[0][:160] if viol else "", flush=True)
    out[tag] = {"demo_changed": d1, "demo_clean": d0, "check_rc": c.returncode, "violations": viol[:5], "seconds": round(dt)}
    sh(f"rm -rf /tmp/seed_ev_{pid}_{tag}")
json.dump(out, open(os.path.join(src, f"check_result_{tier}.json"), "w"), indent=1)
