"""Bounded stand-in for C08: malformed or altered hash strings are rejected cleanly and never verify.

One-edit neighbours (and a few structural edits) of valid hashes of every registered hasher are presented to
identify / verify / needs_update of the hasher and of a many-scheme CryptContext, as str and as bytes.
Allowed outcomes: identify -> bool; verify / needs_update -> bool or a ValueError/TypeError subclass.
A mutant that still verifies the original password must decode to the same digest bits and settings.
"""
import logging
import os
import re
import time

from common import Group, main

import gen_hashes as G

# 12-symbol hostile alphabet: NUL, non-ASCII, the separators of the formats, blank, a digit (zero: makes
# zero-padded numbers when inserted), letters of both cases (both are hex/h64/b64 symbols), newline
ALPHABET = ["\x00", "é", "$", ",", "=", " ", "0", "a", "Z", ".", "|", "\n"]
INSERT_QUICK = ["\x00", "é", "$", "0", "\n"]
SEPARATORS = "$,|:}{=."

# idents the formats document as naming the same algorithm (for passwords without 8-bit / wrap-around issues)
IDENT_ALIASES = [{"$2a$", "$2b$", "$2y$"}, {"$P$", "$H$"}]

CMP_ATTRS = ("checksum", "salt", "rounds", "variant", "version", "block_size", "parallelism", "bare_salt")

# C08_STRICT=1 (diagnostic, off by default): also fail on accepted re-encodings of the same bits that are neither
# letter case nor padding bits (blank/sign/zero-padded numbers, trailing newline, junk inside base64, ...)
STRICT = bool(os.environ.get("C08_STRICT"))

LINEAR_CAP = {"sun_md5_crypt": 8192}
DEFAULT_LINEAR_CAP = 20000


class Fan:
    """a Group that continues in numbered overflow groups when the 25-failure cap of one group is reached"""

    def __init__(self, name, contract, domain):
        self.name, self.contract, self.domain = name, contract, domain
        self.groups = [Group(name, contract, domain)]
        self.keys = set()

    def case(self, ident, nontrivial=True):
        self.groups[0].case(ident, nontrivial)

    def fail(self, key, what, witness):
        if key in self.keys:
            return
        self.keys.add(key)
        if len(self.groups[-1].failures) >= 25:
            self.groups.append(Group(f"{self.name}/overflow-{len(self.groups)}", self.contract, self.domain))
        self.groups[-1].fail(key, what, witness)

    def check(self, cond, key, what, witness):
        if not cond:
            self.fail(key, what, witness() if callable(witness) else witness)
        return cond


CTX_CALL_LIMIT_S = 20


def call(fn, *a, **k):
    """('ok', value) | ('exc', exception, documented?)"""
    try:
        return ("ok", fn(*a, **k))
    except Exception as err:  # noqa: BLE001
        return ("exc", err, isinstance(err, (ValueError, TypeError)))


class _Slow(Exception):
    pass


def call_limited(seconds, fn, *a, **k):
    """call() under a wall-clock limit (SIGALRM): ('slow',) when the call does not come back in time -- a mutant whose cost field
    was altered beyond the format's limits must be refused, not evaluated at a clamped maximum cost"""
    import signal

    def on_alarm(signum, frame):
        raise _Slow()

    old = signal.signal(signal.SIGALRM, on_alarm)
    signal.setitimer(signal.ITIMER_REAL, seconds)
    try:
        return call(fn, *a, **k)
    except _Slow:
        return ("slow",)
    finally:
        signal.setitimer(signal.ITIMER_REAL, 0)
        signal.signal(signal.SIGALRM, old)


def positions(n, tier):
    if tier != "quick":
        dense, stride = 200, 2
    else:
        dense, stride = 48, 4
    ps = list(range(min(n, dense)))
    ps += [p for p in range(dense, n, stride)]
    ps += [p for p in range(max(n - 3, 0), n) if p not in ps]
    return sorted(set(ps))


def numeric_runs(s):
    """maximal digit runs that look like numeric fields (not embedded in a longer alphanumeric token on the left)"""
    out = []
    for m in re.finditer(r"\d+", s):
        a, b = m.span()
        left = s[a - 1] if a else ""
        if left and (left.isalnum() or left in "./+") and not s[:a].endswith(("FSHP",)):
            continue
        if b - a > 10:
            continue
        out.append((a, b))
    return out[:6]


def mutants(s, tier):
    """yield (kind, mutant) -- one-edit neighbours and structural edits of s"""
    n = len(s)
    ps = positions(n, tier)
    ins_alpha = ALPHABET if tier != "quick" or n <= 64 else INSERT_QUICK
    yield "empty", ""
    for p in ps:
        for c in ALPHABET:
            if c != s[p]:
                yield "sub", s[:p] + c + s[p + 1 :]
    for p in ps:
        yield "del", s[:p] + s[p + 1 :]
    for p in ps + [n]:
        for c in ins_alpha:
            yield "ins", s[:p] + c + s[p:]
    for p in ps:
        if p:
            yield "trunc", s[:p]
    # separators: doubled / missing
    for p, ch in enumerate(s):
        if ch in SEPARATORS and (p < 60 or tier != "quick"):
            yield "dupsep", s[:p] + ch + s[p:]
            yield "nosep", s[:p] + s[p + 1 :]
    # field swaps
    for sep in "$,|:":
        parts = s.split(sep)
        if len(parts) >= 3:
            for i in range(len(parts) - 1):
                q = list(parts)
                q[i], q[i + 1] = q[i + 1], q[i]
                if q != parts:
                    yield "swap", sep.join(q)
            q = list(parts)
            q[0], q[-1] = q[-1], q[0]
            yield "swap", sep.join(q)
            q = list(parts)
            q[1], q[-1] = q[-1], q[1]
            yield "swap", sep.join(q)
    # one element of a separated list dropped together with its separator (a parameter missing from a parameter list)
    for sep in ",$":
        parts = s.split(sep)
        if 3 <= len(parts) <= 12:
            for i in range(1, len(parts)):
                yield "dropelem", sep.join(parts[:i] + parts[i + 1 :])
    # comma lists inside one '$' field
    for m in re.finditer(r"[^$]*,[^$]*", s):
        items = m.group(0).split(",")
        for i in range(len(items)):
            yield "dropelem", s[: m.start()] + ",".join(items[:i] + items[i + 1 :]) + s[m.end() :]
    # emptied fields (content of one field removed, separators kept)
    toks = re.split(r"([$,|:={}])", s)
    if 3 <= len(toks) <= 41:
        for i in range(0, len(toks), 2):
            if toks[i]:
                yield "emptyfield", "".join(toks[:i] + [""] + toks[i + 1 :])
    # fields made one character longer / shorter with a character of their own alphabet (an over-long salt, a cost
    # digit more): never positional-thinned, these are the edits a lenient ("relaxed") parser would silently repair
    if 3 <= len(toks) <= 41:
        for i in range(0, len(toks), 2):
            if toks[i]:
                yield "fieldext", "".join(toks[:i] + [toks[i] + toks[i][-1]] + toks[i + 1 :])
                yield "fieldext", "".join(toks[:i] + [toks[i][0] + toks[i]] + toks[i + 1 :])
                if len(toks[i]) > 1:
                    yield "fieldcut", "".join(toks[:i] + [toks[i][:-1]] + toks[i + 1 :])
    # a separator moved by one / two characters between two adjacent fields (same characters overall, another split:
    # salt one shorter and digest one longer ...) -- what a parser that re-joins fields before use cannot tell apart
    if 5 <= len(toks) <= 41:
        for i in range(1, len(toks) - 1, 2):
            left, sepc, right = toks[i - 1], toks[i], toks[i + 1]
            if sepc != "$":
                continue
            for k in (1, 2):
                if len(left) > k:
                    yield "sepmove", "".join(toks[: i - 1] + [left[:-k], sepc, left[-k:] + right] + toks[i + 2 :])
                if len(right) > k:
                    yield "sepmove", "".join(toks[: i - 1] + [left + right[:k], sepc, right[k:]] + toks[i + 2 :])
    # numeric fields
    for a, b in numeric_runs(s):
        num = s[a:b]
        if len(num) < 12:
            for d in (-1, 1, -2):
                if int(num) + d >= 0:
                    w = str(int(num) + d)
                    yield "numstep", s[:a] + (w.rjust(len(num), "0") if num.startswith("0") and len(num) > 1 else w) + s[b:]
        for rep in ("0" + num, "00" + num, "9" * 20, "1" + "0" * 19, "-" + num, "+" + num, " " + num, num + " ", "0x" + num, "", "0", num + ".0", num + "e0", "١"):
            yield "num", s[:a] + rep + s[b:]
    # whole-string letter case
    for v in (s.upper(), s.lower(), s.swapcase()):
        if v != s:
            yield "case", v


def byte_forms(m):
    out = [("bytes-utf8", m.encode("utf-8"))]
    if not m.isascii():
        out.append(("bytes-latin1", m.encode("latin-1", "replace")))
    return out


def arbitrary_strings(infos, rng):
    base = [
        "", " ", "\x00", "é", "\n", "$", "$$", "$$$", "$1$", "$1$$", "$2a$", "$2b$", "$2y$", "$2$", "$2x$", "$2a$04$", "$2a$4$", "$P$", "$H$", "$P$9", "$5$", "$6$",
        "$5$rounds=", "$5$rounds=$", "$6$rounds=1000", "$6$rounds=1000$", "$md5$", "$md5,", "$md5,rounds=", "$md5,rounds=5$", "$sha1$", "$sha1$1$", "$apr1$", "$pbkdf2$", "$pbkdf2$1$",
        "$pbkdf2-sha256$", "$pbkdf2-sha512$1$$", "$p5k2$", "$p5k2$$", "$p5k2$1$", "$scrypt$", "$scrypt$ln=1", "$scrypt$ln=1,r=8,p=1", "$scrypt$ln=1,r=8,p=1$", "$scrypt$xx=1,r=8,p=1$aa$bb", "$7$", "$7$C6..../....",
        "$scram$", "$scram$1$$", "$scram$1$aa$sha-1", "$scram$1$aa$sha-1=", "$scram$1$aa$=", "$bcrypt-sha256$", "$bcrypt-sha256$2a,4$", "$bcrypt-sha256$v=2,t=2b,r=4$", "$3$", "$3$$", "$argon2i$", "$argon2id$v=19$",
        "{", "}", "{}", "{MD5}", "{SHA}", "{SMD5}", "{SSHA}", "{SSHA256}", "{SSHA512}", "{CRYPT}", "{CRYPT}$1$", "{CRYPT}_", "{PBKDF2}", "{PBKDF2-SHA256}1$", "{FSHP", "{FSHP1|", "{FSHP1|1|1}", "{FSHP9|1|1}AAAA",
        "{PKCS5S2}", "{plaintext}", "_", "_....", "_/...Q371", "*", "*0", "!", "!!", "*LK*", "0x", "0x0100", "0X0100", "0x0200", "S:", "s:", "md5", "md5$", "sha1$", "sha1$$", "crypt$", "crypt$$", "bcrypt$",
        "bcrypt$$2a$", "bcrypt_sha256$", "bcrypt_sha256$$2b$", "pbkdf2_sha256$", "pbkdf2_sha256$1$", "pbkdf2_sha1$$$", "argon2$", "grub.pbkdf2.sha512.", "grub.pbkdf2.sha512.1.", "grub.pbkdf2.sha512.1..",
        "00", "0", "07", "99", "5", "ab", "a", "abc", "None", "null", "0" * 32, "f" * 32, "F" * 40, "g" * 32, "=" * 8, "A" * 13, "." * 13, "/" * 20, "١٢", "퟿", "x" * 1000,
    ]
    out = list(base)
    pools = ["./0123456789ABCDEFGHIJKLMNOPQRSTUVWXYZabcdefghijklmnopqrstuvwxyz", "0123456789abcdef", "$,=|{}:.*!_ \x00é\n0aZ", "".join(chr(c) for c in range(32, 127))]
    while len(out) < 170:
        pool = rng.choice(pools)
        out.append("".join(rng.choice(pool) for _ in range(rng.choice([1, 2, 3, 5, 8, 13, 16, 20, 32, 34, 40, 60, 100]))))
    # ident of a hasher followed by junk
    for info in infos:
        ident = getattr(info.h, "ident", None)
        if isinstance(ident, str) and ident and len(out) < 215:
            out.append(ident + "".join(rng.choice(pools[2]) for _ in range(3)))
    seen, res = set(), []
    for s in out:
        if s not in seen:
            seen.add(s)
            res.append(s)
    return res


def cost_of(info, obj):
    """abstract work of a verification with these parsed settings (None = no cost parameter)"""
    rounds = getattr(obj, "rounds", None)
    if not isinstance(rounds, int):
        return None
    kind = getattr(info.base, "rounds_cost", "linear")
    return kind, rounds, getattr(obj, "block_size", 1) or 1, getattr(obj, "parallelism", 1) or 1


def affordable(info, orig_cost, cost):
    if cost is None or orig_cost is None:
        return True
    kind, rounds, bs, par = cost
    _, r0, bs0, par0 = orig_cost
    if bs * par > max(128, bs0 * par0):
        return False
    if kind == "log2":
        return rounds <= r0 + 2
    cap = LINEAR_CAP.get(info.base.name, DEFAULT_LINEAR_CAP)
    return rounds <= max(cap, r0)


def norm_ident(i):
    for grp in IDENT_ALIASES:
        if i in grp:
            return tuple(sorted(grp))
    return i


SCRAM_VERIFY_ORDER = ["sha-256", "sha-512", "sha-224", "sha-384", "sha-1"]  # documented: "only the strongest digest is checked"


def same_bits(info, orig_obj, mobj):
    base = info.base.name
    for k in CMP_ATTRS:
        a, b = getattr(orig_obj, k, None), getattr(mobj, k, None)
        if k == "salt" and base == "django_des_crypt" and isinstance(a, str) and isinstance(b, str):
            # only the first two characters are the DES salt (they are repeated in front of the digest);
            # the rest of Django 1.0's five-character field never fed the digest
            a, b = a[:2], b[:2]
        if a != b:
            if k == "checksum" and orig_obj.salt == mobj.salt and getattr(orig_obj, "rounds", None) == getattr(mobj, "rounds", None):
                # formats that store several digests but compare one: own witness classes
                if base == "scram" and isinstance(a, dict) and isinstance(b, dict):
                    if b and all(a.get(x) == d for x, d in b.items()):
                        continue  # a subset of the original's digests, each unaltered: a valid hash with fewer algorithms
                    alg = next((x for x in SCRAM_VERIFY_ORDER if x in b), None)
                    if alg and b.get(alg) == a.get(alg):
                        return False, "unchecked-digest"
                if base == "mssql2000" and isinstance(a, bytes) and isinstance(b, bytes) and a[20:] == b[20:]:
                    return False, "unchecked-first-digest"
            return False, k
    if norm_ident(getattr(orig_obj, "ident", None)) != norm_ident(getattr(mobj, "ident", None)):
        return False, "ident"
    return True, None


def reencoding_class(s, m):
    """documented equivalence classes a verifying mutant may fall in"""
    if m.lower() == s.lower():
        return "letter-case"
    if len(m) == len(s):
        diff = [i for i in range(len(s)) if s[i] != m[i]]
        if len(diff) == 1:
            return "one-symbol(padding-bits?)"
    return "other"


def exc_name(o):
    return type(o[1]).__name__


def libpass_group(tier):
    """libpass hashers: a stored hash given as BYTES with a byte spliced in (valid ASCII, valid non-ASCII, invalid UTF-8) never verifies"""
    g = Group("libpass-altered-bytes", "libpass.hashers.*.verify/identify/needs_update", "SHA256Hasher, SHA512Hasher, PBKDF2SHA256Handler, PBKDF2SHA512Handler, BcryptSHA256Hasher, BcryptHasher and libpass.context.CryptContext x own hash as bytes x "
              "one byte from {0xff, 0xfe, 0x80, 0xc3, 'A', 0xc3 0xa9} inserted at every position (quick: every 3rd) or appended: verify False or ValueError/TypeError, never True; str form of the unaltered hash verifies")
    try:
        from libpass.context import CryptContext as LCtx
        from libpass.hashers.bcrypt import BcryptHasher, BcryptSHA256Hasher
        from libpass.hashers.pbkdf2 import PBKDF2SHA256Handler, PBKDF2SHA512Handler
        from libpass.hashers.sha_crypt import SHA256Hasher, SHA512Hasher
    except Exception as err:  # noqa: BLE001
        g.skipped.append(f"libpass not importable: {err}")
        return g
    hashers = [("SHA256Hasher", SHA256Hasher(rounds=1000)), ("SHA512Hasher", SHA512Hasher(rounds=1000)), ("PBKDF2SHA256Handler", PBKDF2SHA256Handler(rounds=1)), ("PBKDF2SHA512Handler", PBKDF2SHA512Handler(rounds=1)),
               ("BcryptSHA256Hasher", BcryptSHA256Hasher(rounds=4)), ("BcryptHasher", BcryptHasher(rounds=4))]
    step = 3 if tier == "quick" else 1
    for nm, h in hashers:
        hs = h.hash("pw-1")
        hb = hs.encode()
        ctx = LCtx([h])
        g.case((nm, "unaltered"))
        g.check(h.verify(hb, "pw-1") is True and h.verify(hs, "pw-1") is True, f"libpass-own:{nm}", "own hash (str / bytes) does not verify", {"hasher": nm, "hash": hs})
        # structural edits of the string (fields emptied / cut / extended, separators doubled or dropped, numbers replaced):
        # identify answers a bool, verify / needs_update answer or raise ValueError/TypeError, an edit never verifies unless it denotes the same record
        for kind, m in mutants(hs, tier):
            if kind in ("sub", "ins", "del", "trunc"):
                continue
            g.case((nm, kind, m))
            w = {"hasher": "libpass." + nm, "original": hs, "mutant": m, "mutation": kind}
            o = call(h.identify, m)
            g.check(o[0] == "ok" and isinstance(o[1], bool), f"libpass-identify-raises:{nm}:{exc_name(o) if o[0] == 'exc' else 'nonbool'}", "identify raised / did not answer a bool", dict(w, outcome=repr(o)[:120]))
            calls = [("needs_update", lambda: h.needs_update(m))]
            # cost guard: the cost the string asks for is read with a plain regular expression; anything above a small cap is not evaluated
            nums = [int(x) for x in re.findall(r"(?:rounds=|r=|\$)(\d{1,25})(?=[$,])", m)]
            cap = 6 if "Bcrypt" in nm else 6000
            if all(n <= cap for n in nums):
                calls.append(("verify", lambda: h.verify(m, "pw-1")))
            for cname, fn in calls:
                o = call(fn)
                if o[0] == "exc":
                    g.check(o[2], f"libpass-internal-error:{nm}:{exc_name(o)}:{cname}", f"{cname} raised {exc_name(o)} (neither ValueError nor TypeError)", dict(w, exception=repr(o[1])[:120]))
                elif cname == "verify" and kind == "sepmove":
                    # the same characters split differently into salt and digest are another record: it must not verify
                    g.check(o[1] is not True, f"libpass-altered-verifies:{nm}:sepmove", "a record whose field separator was moved still verifies the original password", dict(w, outcome=repr(o)[:80]))
        for ins in (b"\xff", b"\xfe", b"\x80", b"\xc3", b"A", b"\xc3\xa9"):
            for pos in list(range(0, len(hb), step)) + [len(hb)]:
                m = hb[:pos] + ins + hb[pos:]
                g.case((nm, ins.hex(), pos))
                w = {"hasher": "libpass." + nm, "original": hs, "mutant_bytes_hex": m.hex(), "inserted": ins.hex(), "position": pos}
                for cname, fn in (("verify", lambda: h.verify(m, "pw-1")), ("ctx.verify", lambda: ctx.verify(m, "pw-1"))):
                    o = call(fn)
                    if o[0] == "exc":
                        g.check(o[2], f"libpass-internal-error:{nm}:{exc_name(o)}:{cname}", f"{cname} raised {exc_name(o)} (neither ValueError nor TypeError)", dict(w, exception=repr(o[1])[:120]))
                    else:
                        g.check(o[1] is not True, f"libpass-altered-verifies:{nm}:{'invalid-utf8' if ins[0] >= 0x80 and ins != b'\xc3\xa9' else 'inserted'}", f"{cname} accepts a stored hash with a byte spliced in", w)
    return g


def build(tier, rng):
    logging.disable(logging.WARNING)  # passlib logs every unknown digest name met in mutated scram hashes
    infos, skipped = G.list_handlers()
    notes = []
    t_start = time.time()

    g_id = Fan("identify-total", "GenericHandler.identify", "every hasher x mutants of its valid hashes (12-symbol substitution at every position [quick: first 48 positions, then every 4th, and the last 3; thorough: first 200, then every 2nd], deletion, insertion, truncation, separator doubled/missing, emptied fields, field swaps, zero-padded / 20-digit / signed / blank-padded numbers, letter case, empty) x str, utf-8 bytes, latin-1 bytes: returns a bool, never raises")
    g_vf = Fan("verify-outcome-class", "GenericHandler.verify", "same mutants: verify(original password, mutant) answers a bool or raises a ValueError/TypeError subclass; mutants whose parsed cost exceeds the cap are parsed only")
    g_nu = Fan("needs_update-outcome-class", "GenericHandler.needs_update", "same mutants: needs_update(mutant) answers a bool or raises a ValueError/TypeError subclass")
    g_alt = Fan("altered-never-verifies", "GenericHandler.verify (consteq of recomputed digest)", "same mutants: one that verifies the original password parses to the same digest, salt, rounds, ident (documented aliases 2a/2b/2y, P/H) and other settings as the original")
    g_ctx = Fan("context-outcome-class", "CryptContext.identify_record", "a CryptContext holding every available scheme (70 on this host) x the same mutants (positional ones thinned: quick every 7th; thorough all for the base hash, every 5th for the other shapes; structural ones all) x str and bytes: identify -> name/None without raising; verify / needs_update / verify_and_update answer or raise ValueError/TypeError (UnknownHashError); a mutant accepted by the context decodes to the same bits under the scheme the context picked")
    g_arb = Fan("arbitrary-strings", "GenericHandler.identify/verify/needs_update", "~200 arbitrary strings (bare idents and prefixes, separators only, hex/h64 noise, NUL, non-ASCII, 1000 chars) x every hasher and the context x str and bytes: same outcome classes; none verifies the password (plaintext family excepted by equality)")

    # ---- context with every scheme that can be configured together -----------------------------------
    from passlib.context import CryptContext

    last = ["plaintext", "ldap_plaintext", "roundup_plaintext", "unix_disabled", "django_disabled"]
    names = [i.name for i in infos if i.name not in last and i.name != "htdigest"]
    names += [n for n in ("django_disabled", "unix_disabled") if any(i.name == n for i in infos)]
    ctx = None
    while names:
        try:
            ctx = CryptContext(schemes=names)
            break
        except Exception as err:  # noqa: BLE001
            bad = [n for n in names if n in str(err)]
            if not bad:
                skipped.append(f"CryptContext: could not be built ({type(err).__name__}: {err})")
                break
            skipped.append(f"CryptContext: scheme {bad[0]} left out ({type(err).__name__}: {str(err)[:80]})")
            names.remove(bad[0])
    by_name = {i.name: i for i in infos}

    stats = {"mutants": 0, "verify_calls": 0, "parse_only": 0, "verifying_mutants": {}, "per_hasher_seconds": {}, "context_mutants": 0, "examples": {}}
    T = {"id": 0.0, "vf": 0.0, "nu": 0.0, "alt": 0.0, "ctx": 0.0, "arb": 0.0}  # seconds spent per group

    def judge_verifying(fan, info, sm, orig_obj, m, form, kind, via):
        """a mutant verified the original password: same bits?"""
        ms = m if isinstance(m, str) else m.decode("utf-8", "replace")
        w = {"hasher": info.name, "original": sm.hash, "mutant": ms, "form": form, "mutation": kind, "secret": sm.secret, "call": via, **info.ctx()}
        if not info.is_generic:
            ok = ms.lower() == sm.hash.lower() and info.name == "htdigest"
            if not fan.check(ok, f"altered-verifies:{info.name}:{kind}", "a mutated stored hash still verifies the original password", w):
                return
            cls = "letter-case"
        else:
            o = call(info.parse, m if isinstance(m, str) else ms)
            if o[0] != "ok":
                fan.fail(f"verifies-but-unparseable:{info.name}:{kind}", "verify accepted a string that from_string refuses", {**w, "parse": repr(o[1])})
                return
            same, which = same_bits(info, orig_obj, o[1])
            if which in ("unchecked-digest", "unchecked-first-digest"):
                fan.fail(f"altered-verifies:{info.name}:{which}", "a stored hash with one of its digests altered still verifies the original password (verify compares only one of the stored digests)", w)
                return
            if not fan.check(same, f"altered-verifies:{info.name}:{kind}:{which}", f"a mutated stored hash with a different {which} still verifies the original password", w):
                return
            cls = reencoding_class(sm.hash, ms)
            # independent of the hasher's own parser: one digit of a delimited decimal field (cost, block size, parallelism, ...)
            # replaced by another digit is a different number, hence a different setting; such a string must not verify
            if kind == "sub" and len(ms) == len(sm.hash):
                p = next((i for i in range(len(ms)) if ms[i] != sm.hash[i]), None)
                if p is not None and ms[p].isdigit() and sm.hash[p].isdigit():
                    lo, hi, n = p, p + 1, len(ms)
                    while lo > 0 and sm.hash[lo - 1].isdigit():
                        lo -= 1
                    while hi < n and sm.hash[hi].isdigit():
                        hi += 1
                    if (lo == 0 or sm.hash[lo - 1] in "=$,") and hi < n and sm.hash[hi] in "$,":
                        fan.fail(f"altered-verifies:{info.name}:number-changed", "a stored hash with one digit of a numeric setting changed still verifies the original password (the parser fell back to another value?)", w)
                        return
        d = stats["verifying_mutants"].setdefault(info.name, {})
        d[f"{kind}/{cls}"] = d.get(f"{kind}/{cls}", 0) + 1
        if cls != "letter-case":
            ex = stats["examples"].setdefault(info.name, {})
            if f"{kind}/{cls}" not in ex or len(ms) < len(ex[f"{kind}/{cls}"][1]):
                ex[f"{kind}/{cls}"] = [sm.hash[:140], ms[:140]]
            if STRICT and (cls == "other" or not all(c.isascii() and (c.isalnum() or c in "./+-_=") for c in ms)):
                fan.fail(f"undocumented-reencoding:{info.name}:{kind}", "[C08_STRICT] a re-encoding that is neither letter case nor padding bits is accepted", w)

    def run_hasher_calls(info, sm, orig_obj, orig_cost, kind, m, form, arb=False):
        """identify / verify / needs_update of one hasher on one presented value"""
        name = info.name
        h = info.h
        kw = info.ctx()
        fid, fvf, fnu = (g_arb, g_arb, g_arb) if arb else (g_id, g_vf, g_nu)
        pre = "arb-" if arb else ""

        def wit(callname):
            d = {"hasher": name, "mutation": kind, "form": form, "call": callname, "secret": sm.secret if sm else G.PW, **kw}
            if sm:
                d["original"] = sm.hash
            if isinstance(m, bytes):
                d["presented_bytes_hex"] = m.hex()
            else:
                d["presented"] = m
            return d

        t1 = time.time()
        o = call(h.identify, m)
        if not arb:
            T["id"] += time.time() - t1
        if o[0] == "exc":
            fid.fail(f"{pre}identify-raises:{name}:{exc_name(o)}", "identify raised instead of answering", {**wit("identify(presented)"), "exception": repr(o[1])[:160]})
        else:
            fid.check(isinstance(o[1], bool), f"{pre}identify-nonbool:{name}", "identify did not answer a bool", lambda: {**wit("identify(presented)"), "got": repr(o[1])})
        # cost guard (parse first; never run a verification whose parsed cost is far above the original's)
        t1 = time.time()
        run_verify = True
        if info.is_generic:
            po = call(info.parse, m)
            if po[0] == "ok":
                if not affordable(info, orig_cost, cost_of(info, po[1])):
                    run_verify = False
                    stats["parse_only"] += 1
        if run_verify:
            stats["verify_calls"] += 1
            o = call(h.verify, sm.secret if sm else G.PW, m, **kw)
            if o[0] == "exc":
                fvf.check(o[2], f"{pre}internal-error:{name}:{exc_name(o)}:verify", f"verify raised {exc_name(o)} (neither ValueError nor TypeError)", lambda: {**wit("verify(secret, presented)"), "exception": repr(o[1])[:160]})
            else:
                fvf.check(isinstance(o[1], bool), f"{pre}verify-nonbool:{name}", "verify did not answer a bool", lambda: {**wit("verify(secret, presented)"), "got": repr(o[1])})
                if o[1] is True:
                    if arb:
                        plain = name in ("plaintext", "ldap_plaintext", "roundup_plaintext")
                        g_arb.check(plain and (m if isinstance(m, str) else m.decode("utf-8", "replace")).endswith(G.PW), f"arb-verifies:{name}", "an arbitrary string verifies the password", lambda: wit("verify(secret, presented)"))
                    else:
                        t2 = time.time()
                        judge_verifying(g_alt, info, sm, orig_obj, m, form, kind, "verify(secret, mutant)")
                        T["alt"] += time.time() - t2
        if name == "scram" and not arb and run_verify:
            o = call(h.verify, sm.secret, m, full=True)
            if o[0] == "exc":
                fvf.check(o[2], f"internal-error:{name}:{exc_name(o)}:verify-full", f"verify(full=True) raised {exc_name(o)}", lambda: {**wit("verify(secret, presented, full=True)"), "exception": repr(o[1])[:160]})
            elif o[1] is True:
                po = call(info.parse, m)
                ok = po[0] == "ok" and same_bits(info, orig_obj, po[1])[0]
                g_alt.check(ok, f"altered-verifies:{name}:full:{kind}", "verify(full=True) accepts a stored hash with an altered digest or setting", lambda: wit("verify(secret, presented, full=True)"))
        if not arb:
            T["vf"] += time.time() - t1
        t1 = time.time()
        nu = getattr(h, "needs_update", None)
        if nu is not None:
            o = call(nu, m)
            if o[0] == "exc":
                fnu.check(o[2], f"{pre}internal-error:{name}:{exc_name(o)}:needs_update", f"needs_update raised {exc_name(o)} (neither ValueError nor TypeError)", lambda: {**wit("needs_update(presented)"), "exception": repr(o[1])[:160]})
            else:
                fnu.check(isinstance(o[1], bool), f"{pre}needs_update-nonbool:{name}", "needs_update did not answer a bool", lambda: {**wit("needs_update(presented)"), "got": repr(o[1])})
        if not arb:
            T["nu"] += time.time() - t1

    def run_context_calls(info, sm, kind, m, form, arb=False):
        if ctx is None:
            return
        fan = g_arb if arb else g_ctx
        pre = "arb-ctx" if arb else "ctx"
        kw = {"user": G.USER}

        def wit(callname):
            d = {"context_schemes": "all available (see domain)", "mutation": kind, "form": form, "call": callname, "secret": sm.secret if sm else G.PW, "user": G.USER}
            if sm:
                d["original"] = sm.hash
                d["made_by"] = info.name
            if isinstance(m, bytes):
                d["presented_bytes_hex"] = m.hex()
            else:
                d["presented"] = m
            return d

        o = call(ctx.identify, m)
        picked = None
        if o[0] == "exc":
            fan.fail(f"{pre}-identify-raises:{exc_name(o)}", "CryptContext.identify raised instead of answering", {**wit("ctx.identify(presented)"), "exception": repr(o[1])[:160]})
        else:
            picked = o[1]
            fan.check(picked is None or isinstance(picked, str), f"{pre}-identify-type", "CryptContext.identify answered neither a scheme name nor None", lambda: {**wit("ctx.identify(presented)"), "got": repr(picked)})
        run_verify = True
        pinfo = by_name.get(picked) if isinstance(picked, str) else None

        def parser_of(hd):
            """(from_string, string to hand it) of a hasher or of the hasher a PrefixWrapper wraps"""
            if hasattr(hd, "from_string"):
                return hd.from_string, m
            if hasattr(hd, "wrapped") and hasattr(hd, "_unwrap_hash"):
                inner = call(hd._unwrap_hash, m if isinstance(m, str) else m.decode("latin-1"))
                if inner[0] == "ok" and hasattr(hd.wrapped, "from_string"):
                    return hd.wrapped.from_string, inner[1]
            return None, None

        if pinfo is not None:
            sp, sarg = parser_of(pinfo.h)
            po = call(sp, sarg) if sp else None
            if po is not None and po[0] == "ok":
                oc = None
                if sm is not None and pinfo is info:
                    oc = sm_cost.get(id(sm))
                c = cost_of(pinfo, po[1])
                if c is not None:
                    ref = oc or (c[0], pinfo.h.min_rounds if c[0] == "linear" else pinfo.h.min_rounds, 8, 1)
                    if not affordable(pinfo, ref, c):
                        run_verify = False
            elif po is not None:
                # the scheme's own parser refuses the string: the context's customised copy of the scheme must refuse it too
                # (a lenient copy would repair an altered salt / clamp an altered cost and then verify -- possibly at maximum cost)
                rec = call(ctx.handler, picked)
                lp, larg = parser_of(rec[1]) if rec[0] == "ok" else (None, None)
                if lp:
                    lo = call(lp, larg)
                    if lo[0] == "ok":
                        run_verify = False
                        fan.fail(f"{pre}-record-parses-leniently:{picked}", "the context's copy of the scheme parses a mutated hash that the scheme itself refuses (altered field silently repaired)",
                                 {**wit("ctx.handler(scheme).from_string(presented)"), "picked_scheme": picked, "strict_error": repr(po[1])[:120], "lenient_salt": repr(getattr(lo[1], "salt", None))[:60], "lenient_rounds": repr(getattr(lo[1], "rounds", None))})
        secret = sm.secret if sm else G.PW
        calls = [("needs_update", lambda: ctx.needs_update(m))]
        if run_verify:
            calls += [("verify", lambda: ctx.verify(secret, m, **kw)), ("verify_and_update", lambda: ctx.verify_and_update(secret, m, **kw))]
        for cname, fn in calls:
            o = call_limited(CTX_CALL_LIMIT_S, fn)
            if o[0] == "slow":
                fan.fail(f"{pre}-not-refused-in-time:{picked}:{cname}", f"CryptContext.{cname} of a mutated hash did not answer within {CTX_CALL_LIMIT_S} s (the scheme's own parser "
                         "refuses it or reads an affordable cost: a leniently repaired / clamped cost field?)", {**wit(f"ctx.{cname}(...)"), "picked_scheme": picked})
                break
            if o[0] == "exc":
                fan.check(o[2], f"{pre}-internal-error:{picked}:{exc_name(o)}:{cname}", f"CryptContext.{cname} raised {exc_name(o)} (neither ValueError nor TypeError)", lambda: {**wit(f"ctx.{cname}(...)"), "picked_scheme": picked, "exception": repr(o[1])[:160]})
                continue
            v = o[1]
            if cname == "verify_and_update":
                okshape = isinstance(v, tuple) and len(v) == 2 and isinstance(v[0], bool)
                fan.check(okshape, f"{pre}-verify_and_update-shape", "verify_and_update did not answer (bool, new_hash)", lambda: {**wit("ctx.verify_and_update"), "got": repr(v)})
                continue
            fan.check(isinstance(v, bool), f"{pre}-{cname}-nonbool", f"CryptContext.{cname} did not answer a bool", lambda: {**wit(f"ctx.{cname}"), "got": repr(v)})
            if cname == "verify" and v is True:
                if arb or pinfo is None:
                    fan.fail(f"{pre}-verifies:{picked}", "the context verifies the password against an arbitrary / unidentified string", {**wit("ctx.verify"), "picked_scheme": picked})
                elif pinfo is info:
                    judge_verifying(fan, info, sm, orig_objs.get(id(sm)), m, form, kind, f"ctx.verify (picked {picked})")
                else:
                    # the context read the mutant as a hash of another scheme (e.g. a one-block bigcrypt hash is a
                    # des_crypt hash): fine iff the original is a hash of that scheme too, with the same bits
                    ms = m if isinstance(m, str) else m.decode("latin-1")
                    if info.name == "mssql2000" and picked == "mssql2005" and ms.lower() == sm.hash[:54].lower():
                        # documented relation of the two formats: the 2005 digest is the first (case-sensitive) digest
                        # of the 2000 format, so this truncation *is* the 2005 hash of the password (hashlib oracle)
                        import hashlib

                        salt = bytes.fromhex(ms[6:14])
                        if hashlib.sha1(secret.encode("utf-16-le") + salt).hexdigest() == ms[14:].lower():
                            continue
                    pm = call(pinfo.parse, m)
                    if pm[0] == "ok" and pinfo.is_generic and info.is_generic and pinfo.base is info.base:
                        # prefix-wrapped and bare form of the same hasher ({CRYPT}$1$... / $1$...): compare the records
                        ok = same_bits(pinfo, orig_objs.get(id(sm)), pm[1])[0]
                    else:
                        po = call(pinfo.parse, sm.hash)
                        ov = call(pinfo.h.verify, secret, sm.hash, **pinfo.ctx())
                        ok = po[0] == "ok" and pm[0] == "ok" and ov == ("ok", True) and same_bits(pinfo, po[1], pm[1])[0]
                    fan.check(ok, f"ctx-altered-verifies-as:{info.name}->{picked}:{kind}", "a mutated hash verifies the original password under another scheme of the context although the original is not the same hash there", lambda: {**wit("ctx.verify"), "picked_scheme": picked})

    # ---- mutants of valid hashes ----------------------------------------------------------------------
    sm_cost, orig_objs = {}, {}
    for info in infos:
        t0 = time.time()
        samples = G.generate(info, "quick", rng, notes)
        if not samples:
            skipped.append(f"{info.name}: no valid hash could be generated")
            continue
        # base sample + one sample per distinct string shape (ident / implicit rounds / bare salt / version ...)
        chosen, shapes = [], set()
        for sm in samples:
            shape = (re.sub(r"[A-Za-z0-9./+]", "", sm.hash), sm.settings.get("ident"), sm.settings.get("version"), sm.settings.get("bare_salt"), sm.settings.get("variant"), sm.settings.get("rounds") == G.IMPLICIT_ROUNDS.get(info.name, -1), len(sm.hash) // 24)
            if shape not in shapes:
                shapes.add(shape)
                chosen.append(sm)
        chosen = chosen[: (3 if tier == "quick" else 8)]
        for idx, sm in enumerate(chosen):
            s = sm.hash
            orig_obj = None
            orig_cost = None
            if info.is_generic:
                po = call(info.parse, s)
                if po[0] != "ok":
                    skipped.append(f"{info.name}: generated hash not parseable, left to C07 ({s[:40]})")
                    continue
                orig_obj = po[1]
                orig_cost = cost_of(info, orig_obj)
            sm_cost[id(sm)] = orig_cost
            orig_objs[id(sm)] = orig_obj
            # time one verification to size the sweep of this hasher
            tv = time.time()
            ok0 = call(info.h.verify, sm.secret, s, **info.ctx())
            tv = time.time() - tv
            disabled = bool(getattr(info.h, "is_disabled", False))
            if not (ok0 == ("ok", True) or disabled):
                skipped.append(f"{info.name}: original hash does not verify, left to C07 ({s[:40]})")
                continue
            seen = set()
            full = idx == 0 or tier != "quick"
            slow = tv > 0.004  # expensive digests: only every k-th digest-region substitution is verified
            k = 0
            nctx = 0
            # thinning moduli are coprime to the alphabet size (12) so that no symbol is skipped systematically
            ctx_every = 7 if tier == "quick" else (1 if idx == 0 else 5)
            nb = 0
            for kind, m in mutants(s, tier):
                if m in seen or m == s:
                    continue
                seen.add(m)
                if not full and kind in ("sub", "ins") and (len(seen) % 5) not in (0, 2):
                    continue
                if slow and kind in ("sub", "ins", "del", "trunc"):
                    k += 1
                    if k % (7 if tier == "quick" else 5):
                        continue
                stats["mutants"] += 1
                for fan in (g_id, g_vf, g_nu, g_alt):
                    fan.case((info.name, kind, m))
                run_hasher_calls(info, sm, orig_obj, orig_cost, kind, m, "str")
                # the context walks up to 70 identify() calls per question: positional mutants are thinned for it
                nctx += 1
                do_ctx = kind not in ("sub", "ins", "del", "trunc") or nctx % ctx_every == 0
                if do_ctx:
                    t1 = time.time()
                    run_context_calls(info, sm, kind, m, "str")
                    T["ctx"] += time.time() - t1
                    stats["context_mutants"] += 1
                    g_ctx.case((info.name, kind, m))
                # bytes: every structural mutant, every mutant holding NUL / non-ASCII, and a fifth of the other positional ones in quick
                nb += 1
                if kind in ("sub", "ins") and tier == "quick" and m.isascii() and "\x00" not in m and nb % 5:
                    continue
                for form, mb in byte_forms(m):
                    run_hasher_calls(info, sm, orig_obj, orig_cost, kind, mb, form)
                    if do_ctx:
                        t1 = time.time()
                        run_context_calls(info, sm, kind, mb, form)
                        T["ctx"] += time.time() - t1
        stats["per_hasher_seconds"][info.name] = round(time.time() - t0, 2)

    # ---- arbitrary strings ------------------------------------------------------------------------------
    t_arb = time.time()
    arbs = arbitrary_strings(infos, rng)
    for a in arbs:
        forms = [("str", a)]
        try:
            forms += byte_forms(a)
        except UnicodeEncodeError:
            pass  # lone surrogate: str form only
        forms.append(("bytes-raw", bytes(rng.randrange(256) for _ in range(min(len(a), 40) or 1))))
        for form, v in forms:
            for info in infos:
                g_arb.case((info.name, form, v))
                run_hasher_calls(info, None, None, None, "arbitrary", v, form, arb=True)
            g_arb.case(("context", form, v))
            run_context_calls(None, None, "arbitrary", v, form, arb=True)

    T["arb"] = time.time() - t_arb
    T["vf"] -= T["alt"]
    groups = []
    now = time.time()
    for fan, key in ((g_id, "id"), (g_vf, "vf"), (g_nu, "nu"), (g_alt, "alt"), (g_ctx, "ctx"), (g_arb, "arb")):
        for g in fan.groups:
            g.t0 = now - T[key]  # Group.out() reports now - t0: the time this group's calls took
        groups += fan.groups
    groups.append(libpass_group(tier))
    seen = set()
    for n in notes:
        k = re.sub(r"\{.*\}", "{..}", n)
        if k not in seen:
            seen.add(k)
            skipped.append(n)
    slowest = dict(sorted(stats["per_hasher_seconds"].items(), key=lambda kv: -kv[1])[:8])
    host = {
        "mutants": stats["mutants"],
        "context_mutants": stats["context_mutants"],
        "verify_calls": stats["verify_calls"],
        "parse_only_over_cost_cap": stats["parse_only"],
        "arbitrary_strings": len(arbs),
        "context_schemes": len(names) if ctx is not None else 0,
        "tolerated_verifying_mutants_by_class": stats["verifying_mutants"],
        "tolerated_verifying_mutant_examples": stats["examples"],
        "slowest_hashers_seconds": slowest,
        "seconds": round(time.time() - t_start, 1),
    }
    return groups, skipped, host


if __name__ == "__main__":
    main(build)
