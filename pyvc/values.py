"""pyvc.values -- tagged symbolic values.

Concrete Python values (int, bool, None, str, bytes, tuple, float) stand for themselves.  Mutable
containers are always host references (SList / SDict / SObj) so that local aliases behave as in Python.
"""

from __future__ import annotations

import z3


class Unsupported(Exception):
    """construct outside the modelled subset: the function is *undecided*, never a violation"""


class Sym:
    pass


class SInt(Sym):
    """math mode: z3 Int.  bv mode: BitVec of the execution's width (two's complement)."""

    __slots__ = ("e",)

    def __init__(self, e):
        self.e = e

    def __repr__(self):
        return f"SInt({self.e})"


class SBool(Sym):
    __slots__ = ("e",)

    def __init__(self, e):
        self.e = e

    def __repr__(self):
        return f"SBool({self.e})"


class SStr(Sym):
    """z3 String; kind 'str' or 'bytes' (bytes: every code point < 256, assumed at creation)."""

    __slots__ = ("e", "kind")

    def __init__(self, e, kind="str"):
        self.e = e
        self.kind = kind

    def __repr__(self):
        return f"SStr[{self.kind}]({self.e})"


class SDec(Sym):
    """abstract decimal rendering: the string ``"%0*d" % (w, v)`` for v >= 0 and a concrete width w.
    Meta-rule (trusted, DESIGN 2.2): its last d <= w characters are ``"%0*d" % (d, v mod 10^d)``;
    two renderings are equal iff values and total lengths are equal; total length is w when v < 10^w."""

    __slots__ = ("v", "w")

    def __init__(self, v, w):
        self.v = v
        self.w = w

    def __repr__(self):
        return f"SDec({self.v}, width={self.w})"


class SSeq(Sym):
    """symbolic-length sequence of ints (z3 Seq(Int)); kind: 'list' | 'tuple' | 'bytes' | 'gen'"""

    __slots__ = ("e", "kind")

    def __init__(self, e, kind="list"):
        self.e = e
        self.kind = kind

    def __repr__(self):
        return f"SSeq[{self.kind}]({self.e})"


class SMap(Sym):
    """symbolic map: z3 Array key -> value plus a domain Array key -> Bool.  Mutable host reference."""

    def __init__(self, dom, arr, ksort, vwrap, name="map"):
        self.dom = dom
        self.arr = arr
        self.ksort = ksort
        self.vwrap = vwrap  # z3 expr -> value
        self.name = name


class SUnion(Sym):
    """lazily resolved union: ``tag`` is a z3 Int, ``alts`` maps tag number -> (typename, value)"""

    def __init__(self, name, tag, alts):
        self.name = name
        self.tag = tag
        self.alts = alts  # list of (typename, value)

    def __repr__(self):
        return f"SUnion({self.name}: {[t for t, _ in self.alts]})"


class SList:
    """static-length mutable list of values"""

    def __init__(self, items, kind="list"):
        self.items = list(items)
        self.kind = kind  # 'list' | 'bytes' (fixed-length byte string of symbolic ints)

    def __repr__(self):
        return f"SList[{self.kind}]({self.items})"


class SDict:
    """dict with concrete keys"""

    def __init__(self, items=None):
        self.items = dict(items or {})

    def __repr__(self):
        return f"SDict({self.items})"


class SSet:
    def __init__(self, items=()):
        self.items = list(items)


class SObj:
    """record: instance or class object.  ``cls`` is a ClassRef used for attribute fall-back."""

    def __init__(self, name, fields=None, cls=None, is_class=False, fresh=False):
        self.name = name
        self.fields = dict(fields or {})
        self.cls = cls
        self.is_class = is_class
        self.fresh = fresh  # created during this execution (writes are inside every frame)
        self.parent = None  # for fresh subclasses: the object attributes fall back to

    def __repr__(self):
        return f"SObj({self.name})"


class SAbsIter:
    """an abstract finite iterable of unknown length: ``n`` (SInt / int) elements, element i given by ``get(i)`` (a
    function of the index, e.g. built from an uninterpreted function), used with the loop-invariant rule"""

    def __init__(self, n, get, name="iterable"):
        self.n = n
        self.get = get
        self.name = name

    def __repr__(self):
        return f"<abstract iterable {self.name}>"


class SOpaque:
    """a value nothing is known about (messages, warnings categories...)"""

    def __init__(self, what="opaque"):
        self.what = what

    def __repr__(self):
        return f"<opaque {self.what}>"


class SUndef:
    """the value of a spec sub-term that Python would not evaluate (it would raise): absorbs every operation,
    its truth value is an unconstrained Bool -- proves nothing, assumes nothing"""

    def __repr__(self):
        return "<undefined>"


class SExcClass:
    def __init__(self, name, mro):
        self.name = name
        self.mro = mro  # list of names, self first

    def issub(self, other_name):
        return other_name in self.mro

    def __repr__(self):
        return f"<exc class {self.name}>"


class SExc:
    def __init__(self, cls: SExcClass, args=()):
        self.cls = cls
        self.args = args

    def __repr__(self):
        return f"<exc {self.cls.name}>"


class SClosure:
    """a function whose real body is executed inline (nested def, or marked inline in the sidecar)"""

    def __init__(self, node, env, info=None, self_obj=None, name=None, owner=None):
        self.node = node
        self.env = env  # defining environment (Env)
        self.info = info
        self.self_obj = self_obj
        self.name = name or node.name
        self.owner = owner  # ClassRef the function was found in (for super())


class SStub:
    """a callable implemented in the sidecar (trusted model of an external or an abstracted callee)"""

    def __init__(self, fn, name="stub", trusted=None, attrs=None):
        self.fn = fn
        self.name = name
        self.trusted = trusted
        self.attrs = dict(attrs or {})

    def __repr__(self):
        return f"<stub {self.name}>"


class SType:
    """a Python type used in isinstance()/calls: name in {'int','str','bytes','float','bool','tuple','list','dict','NoneType','type'}"""

    def __init__(self, name):
        self.name = name

    def __repr__(self):
        return f"<type {self.name}>"


class SModule:
    def __init__(self, name, attrs=None):
        self.name = name
        self.attrs = dict(attrs or {})


StringSort = z3.StringSort()
IntSeqSort = z3.SeqSort(z3.IntSort())


def is_concrete(v):
    return v is None or isinstance(v, (int, bool, str, bytes, float, tuple)) and (
        not isinstance(v, tuple) or all(is_concrete(x) for x in v)
    )


def pytype_name(v):
    """static type tag of a resolved value"""
    if v is None:
        return "NoneType"
    if isinstance(v, bool) or isinstance(v, SBool):
        return "bool"
    if isinstance(v, int) or isinstance(v, SInt):
        return "int"
    if isinstance(v, float):
        return "float"
    if isinstance(v, str):
        return "str"
    if isinstance(v, bytes):
        return "bytes"
    if isinstance(v, SStr):
        return v.kind
    if isinstance(v, SDec):
        return "str"
    if isinstance(v, tuple):
        return "tuple"
    if isinstance(v, SList):
        return v.kind
    if isinstance(v, SSeq):
        return {"gen": "generator"}.get(v.kind, v.kind)
    if isinstance(v, (SDict, SMap)):
        return "dict"
    if isinstance(v, SSet):
        return "set"
    if isinstance(v, SObj):
        return "type" if v.is_class else "object"
    if isinstance(v, (SClosure, SStub)):
        return "function"
    if isinstance(v, SExc):
        return "exception"
    return "unknown"
