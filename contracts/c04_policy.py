"""C04, continued: which scheme is deprecated / default for a category (_CryptConfig), from the real source.

Scheme lists are abstracted by membership predicates over scheme names (uninterpreted Bool functions of the name), so
the contracts hold for every list content; which option keys are present is enumerated (None / category, present / absent)."""
import itertools

import z3

from pyvc.contract import Const, Contract, Obj, Opt, Str
from pyvc.values import SBool, SDict, SObj, SStr, SStub

C = "passlib/context.py"
S = z3.StringSort()
IN = {k: z3.Function(f"in_deprecated[{k}]", S, z3.BoolSort()) for k in ("None", "cat")}
AUTO = {k: z3.Bool(f"auto_in_deprecated[{k}]") for k in ("None", "cat")}
DEF = {k: z3.String(f"default_scheme[{k}]") for k in ("None", "cat")}


def _deplist(k):
    def contains(it, a, kw):
        x = it.resolve(a[0])
        if x == "auto":
            return SBool(AUTO[k])
        return SBool(IN[k](it.to_z3(x)))

    return SObj(f"deprecated[{k}]", fields={"__contains__": SStub(contains, f"x in deprecated[{k}]")})


def _is_dep_setup(has_none, has_cat, cat_default):
    def setup(it, args):
        d = {}
        if has_none:
            d[None] = _deplist("None")
        if has_cat:
            d["cat"] = _deplist("cat")
        depmap = SDict(d)
        self = args["self"]
        self.fields["get_context_optionmap"] = SStub(lambda i, a, k: depmap, "get_context_optionmap('deprecated')")
        # the REAL default_scheme() runs on the map _init_default_schemes leaves behind: an entry for the category only when
        # it has a default of its own, else the category falls back to the default category's entry
        dm = {None: SStr(DEF["None"], "str")}
        if cat_default:
            dm["cat"] = SStr(DEF["cat"], "str")
        else:
            it.run.assume(DEF["cat"] == DEF["None"])
        self.fields["_default_schemes"] = SDict(dm)
        self.fields["schemes"] = ("some_scheme",)
        it.run.assume(z3.And(DEF["None"] != z3.StringVal("auto"), DEF["cat"] != z3.StringVal("auto")))
        return None

    return setup


def _dep_spec(has_none, has_cat, category):
    """deprecated(scheme, category) per the property statement: the category's own list when it has one, else the
    default category's; 'auto' = every scheme except that category's default; no list = nothing deprecated"""

    def test(k, sch):
        return z3.If(AUTO[k], sch != DEF[k if k == "None" else "cat"], IN[k](sch))

    def post(it, env):
        sch = it.to_z3(env.lookup("scheme"))
        base = test("None", sch) if has_none else z3.BoolVal(False)
        if category is None:
            want = base
        else:
            # source list for the category: its own if present, else the default category's (auto then refers to the category's default)
            if has_cat:
                want = test("cat", sch)
            elif has_none:
                want = z3.If(AUTO["None"], sch != DEF["cat"], IN["None"](sch))
            else:
                want = z3.BoolVal(False)
        res = it.resolve(env.lookup("result"))
        items = it.static_items_req(res)
        return it.to_zbool(it.truth(items[0])) == want

    return post


CONTRACTS = []
for has_none, has_cat, category, cat_default in itertools.product((False, True), (False, True), (None, "cat"), (False, True)):
    CONTRACTS.append(Contract(
        f"is_deprecated_with_flag[None-list={has_none} cat-list={has_cat} category={category!r} category-default={cat_default}]", f"{C}::_CryptConfig.is_deprecated_with_flag",
        params={"self": Obj(cls=(C, "_CryptConfig")), "scheme": Str(), "category": Const(category)},
        setup=_is_dep_setup(has_none, has_cat, cat_default),
        requires=["scheme != 'auto'"],
        ensures=[("deprecated exactly per the category's list (own, else inherited; 'auto' = all but the category's default)", _dep_spec(has_none, has_cat, category))],
        descr="every scheme name, every list content (membership abstract), every default",
    ))


# ---- _init_default_schemes: up to 3 schemes, one category ---------------------------------------------------------
def _defaults_setup(n, has_def_none, has_def_cat, has_dep_none, has_dep_cat):
    def setup(it, args):
        schemes = tuple(SStr(z3.String(f"scheme{i}"), "str") for i in range(n))
        for i in range(n):
            it.run.assume(z3.Length(schemes[i].e) > 0)
            for j in range(i):
                it.run.assume(schemes[i].e != schemes[j].e)
        dm = {}
        if has_def_none:
            dm[None] = SStr(z3.String("explicit_default[None]"), "str")
            it.run.assume(z3.Length(dm[None].e) > 0)
        if has_def_cat:
            dm["cat"] = SStr(z3.String("explicit_default[cat]"), "str")
            it.run.assume(z3.Length(dm["cat"].e) > 0)
        stored = SDict(dict(dm))  # the option map as stored in the configuration: must not be written (it is what to_dict() exports)
        dep = {}
        if has_dep_none:
            dep[None] = _deplist("None")
        if has_dep_cat:
            dep["cat"] = _deplist("cat")
        depmap = SDict(dep)

        def optionmap(i, a, k):
            which = i.resolve(a[0])
            return stored if which == "default" else depmap

        self = args["self"]
        self.fields.update({"get_context_optionmap": SStub(optionmap, "get_context_optionmap"), "schemes": schemes, "categories": ("cat",)})
        it.run.ghost.update({"schemes": schemes, "stored": stored, "explicit": dict(dm)})
        return None

    return setup


def _defaults_post(n, has_def_none, has_def_cat, has_dep_none, has_dep_cat):
    def dep(k, sch):
        present = has_dep_none if k == "None" else has_dep_cat
        return IN[k](sch) if present else z3.BoolVal(False)

    def post(it, env):
        g = it.run.ghost
        schemes = [s.e for s in g["schemes"]]
        dmap = it.resolve(it.resolve(env.lookup("self")).fields.get("_default_schemes"))
        if dmap is None or dmap is g["stored"] or set(g["stored"].items) != set(g["explicit"]):
            return False  # computed defaults must live in their own map: the stored 'default' options are not written
        dm = dmap.items
        ex = g["explicit"]
        out = []
        # default category
        if None not in dm:
            return False
        got_none = it.to_z3(dm[None])
        if has_def_none:
            out.append(got_none == ex[None].e)
            out.append(z3.Not(dep("None", got_none)))
        else:
            # first scheme not deprecated
            for i, s in enumerate(schemes):
                out.append(z3.Implies(z3.And(z3.Not(dep("None", s)), *[dep("None", t) for t in schemes[:i]]), got_none == s))
        # category: explicit category default, else explicit global default, else the first scheme not deprecated for the category
        cdep = (lambda s: dep("cat", s)) if has_dep_cat else (lambda s: dep("None", s))
        if has_def_cat:
            out.append(it.to_z3(dm["cat"]) == ex["cat"].e)
            out.append(z3.Not(cdep(ex["cat"].e)))
        elif has_def_none:
            out.append(z3.BoolVal("cat" not in dm))  # inherits the explicit global default through default_scheme()
            out.append(z3.Not(cdep(ex[None].e)))
        else:
            if "cat" not in dm:
                return False
            got_cat = it.to_z3(dm["cat"])
            for i, s in enumerate(schemes):
                out.append(z3.Implies(z3.And(z3.Not(cdep(s)), *[cdep(t) for t in schemes[:i]]), got_cat == s))
        return z3.And(*out)

    return post


for n in (1, 2, 3):
    for flags in itertools.product((False, True), repeat=4):
        if n != 2 and flags not in ((False, False, True, True), (True, False, True, False), (False, True, False, True)):
            continue  # all 16 key-presence combinations for 2 schemes; representative ones for 1 and 3
        CONTRACTS.append(Contract(
            f"_init_default_schemes[{n} schemes default(None)={flags[0]} default(cat)={flags[1]} deprecated(None)={flags[2]} deprecated(cat)={flags[3]}]",
            f"{C}::_CryptConfig._init_default_schemes",
            params={"self": Obj()},
            setup=_defaults_setup(n, *flags),
            raises={"ValueError": None},
            ensures=[("a default that is returned is the explicit one (never deprecated), else the first non-deprecated scheme; the category inherits the explicit global default; the stored option map is left as configured", _defaults_post(n, *flags))],
            canary=False,
            descr="every scheme name, every deprecated-list content (membership abstract)",
        ))


# ---- CryptContext.needs_update / hash / _create_record ------------------------------------------------------------
def _nu_setup(it, args):
    rec = SObj("record", fields={
        "deprecated": SBool(z3.Bool("record.deprecated")),
        "needs_update": SStub(lambda i, a, k: SBool(z3.Bool("record.needs_update(hash)")), "record.needs_update"),
    })
    args["self"].fields["_get_or_identify_record"] = SStub(lambda i, a, k: rec, "_get_or_identify_record")
    return {"record": rec}


CONTRACTS.append(Contract(
    "CryptContext.needs_update", f"{C}::CryptContext.needs_update",
    params={"self": Obj(), "hash": Str(), "scheme": Const(None), "category": Opt(Str()), "secret": Const(None)},
    setup=_nu_setup,
    ensures=[("needs updating exactly when the scheme is deprecated for the category or the record flags the hash",
              lambda it, env: it.to_zbool(it.truth(env.lookup("result"))) == z3.Or(z3.Bool("record.deprecated"), z3.Bool("record.needs_update(hash)")))],
    descr="any record the context attributes the hash to",
))


def _hash_setup(it, args):
    def get_record(i, a, k):
        i.run.ghost["asked"] = (i.resolve(a[0]), i.resolve(a[1]))
        return rec

    rec = SObj("record", fields={"hash": SStub(lambda i, a, k: SStr(z3.String("record.hash(secret)"), "str"), "record.hash")})
    self = args["self"]
    self.fields["_get_record"] = SStub(get_record, "_get_record")
    self.fields["_strip_unused_context_kwds"] = None
    return None


CONTRACTS.append(Contract(
    "CryptContext.hash", f"{C}::CryptContext.hash",
    params={"self": Obj(), "secret": Str(), "scheme": Const(None), "category": Opt(Str()), "kwds": Const(SDict())},
    setup=_hash_setup,
    ensures=[("new hashes come from the record of the category's DEFAULT scheme (scheme=None, the caller's category)",
              lambda it, env: z3.And(it.to_z3(env.lookup("result")) == z3.String("record.hash(secret)"),
                                     z3.BoolVal(it.run.ghost["asked"][0] is None),
                                     it.to_zbool(it.cmp_vals("==", it.run.ghost["asked"][1], env.lookup("category")))))],
))


def _cr_setup(it, args):
    handler = args["handler"]
    sub = SObj("subclass", is_class=True, fresh=True)
    sub.parent = handler

    def using(i, a, k):
        i.run.ghost["using_kwds"] = dict(k)
        return sub

    handler.fields["using"] = SStub(using, "handler.using")
    it.run.ghost["sub"] = sub
    return {"subclass": sub}


CONTRACTS.append(Contract(
    "_CryptConfig._create_record", f"{C}::_CryptConfig._create_record",
    params={"handler": Obj(is_class=True, fields={"name": "h"}), "category": Opt(Str()), "deprecated": __import__("pyvc.contract", fromlist=["Bool"]).Bool(), "settings": Const(SDict({"min_rounds": 7}))},
    setup=_cr_setup,
    modifies=[],
    raises={"TypeError": None, "KeyError": None},
    ensures=[("the record is the customised subclass, flagged deprecated exactly as configured; the settings are passed on relaxed; the registered handler is untouched (frame)",
              lambda it, env: z3.And(z3.BoolVal(it.resolve(env.lookup("result")) is it.run.ghost["sub"]),
                                     it.to_zbool(it.truth(it.run.ghost["sub"].fields.get("deprecated"))) == it.to_zbool(it.truth(env.lookup("deprecated"))),
                                     z3.BoolVal(it.run.ghost["using_kwds"].get("min_rounds") == 7 and it.run.ghost["using_kwds"].get("relaxed") is True)))],
))


# ---- get_scheme_options_with_flag: the category's wildcard options count as category-specific -------------------------------
def _gso_setup(variant):
    def setup(it, args):
        v = {n: SStr(z3.String(n), "str") for n in ("all_default", "all_cat", "scheme_default", "scheme_cat")}
        maps = {
            ("all", None): {"min_rounds": v["all_default"]},
            ("all", "admin"): {"max_rounds": v["all_cat"]} if variant in ("wildcard", "both") else {},
            ("des_crypt", None): {"vary_rounds": v["scheme_default"]},
            ("des_crypt", "admin"): {"default_rounds": v["scheme_cat"]} if variant in ("scheme", "both") else {},
        }
        self = args["self"]
        self.fields["_get_scheme_optionmap"] = SStub(lambda i, a, k: SDict(dict(maps[(i.resolve(a[0]), i.resolve(a[1]))])), "_get_scheme_optionmap")
        self.fields["get_base_handler"] = SStub(lambda i, a, k: "handler", "get_base_handler")
        self.fields["expand_settings"] = SStub(lambda i, a, k: ("min_rounds", "max_rounds", "vary_rounds", "default_rounds", "rounds"), "expand_settings")
        it.run.ghost["v"] = v
        return None

    return setup


def _gso_post(variant, category):
    def post(it, env):
        kw, flag = it.static_items_req(it.resolve(env.lookup("result")))
        kw = it.resolve(kw)
        v = it.run.ghost["v"]
        want = {"min_rounds": "all_default", "vary_rounds": "scheme_default"}
        if category:
            if variant in ("wildcard", "both"):
                want["max_rounds"] = "all_cat"
            if variant in ("scheme", "both"):
                want["default_rounds"] = "scheme_cat"
        if set(kw.items) != set(want):
            return False
        same = [it.to_zbool(it.truth(it.cmp_vals("==", kw.items[k], v[n]))) for k, n in want.items()]
        want_flag = bool(category) and variant != "none"
        return z3.And(z3.BoolVal(it.resolve(flag) is want_flag), *same)

    return post


for _variant in ("none", "wildcard", "scheme", "both"):
    for _cat in (None, "admin"):
        CONTRACTS.append(Contract(
            f"get_scheme_options_with_flag[category options: {_variant}; category={_cat!r}]", f"{C}::_CryptConfig.get_scheme_options_with_flag",
            params={"self": Obj(), "scheme": Const("des_crypt"), "category": Const(_cat)},
            setup=_gso_setup(_variant),
            ensures=[("options = global 'all', then the category's 'all', then the scheme's, then the scheme's for the category; the flag is set exactly when the category contributes an option of its own (wildcard or per scheme)",
                      _gso_post(_variant, _cat))],
            descr="symbolic option values",
        ))
