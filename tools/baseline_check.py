#!/usr/bin/env python3
"""Run the repository's pinned suite (hooks guard OFF) and compare with /root/.vp/BASELINE.json stable_pass."""
import json, os, subprocess, sys, tempfile
import xml.etree.ElementTree as ET

base = json.load(open("/root/.vp/BASELINE.json"))
repo = sys.argv[1] if len(sys.argv) > 1 else "/repo"
fd, path = tempfile.mkstemp(suffix=".xml"); os.close(fd)
cmd = base["cmd"].replace("<file>", path).replace("cd /repo", f"cd {repo}")
env = dict(os.environ); env.pop("PASSLIB_VERIF", None)
if repo != "/repo":
    env["PYTHONPATH"] = repo
subprocess.run(cmd, shell=True, env=env, stdout=subprocess.DEVNULL, stderr=subprocess.DEVNULL)
passed = set()
for tc in ET.parse(path).getroot().iter("testcase"):
    if not any(ch.tag in ("failure", "error", "skipped") for ch in tc):
        passed.add(f"{tc.get('classname')}::{tc.get('name')}")
os.unlink(path)
want = set(base["stable_pass"])
missing = sorted(want - passed)
print(f"stable_pass={len(want)} passed_now={len(passed)} missing={len(missing)}")
for m in missing[:40]:
    print("  MISSING", m)
sys.exit(1 if missing else 0)
