"""C08 -- contracts (proof part under construction) + bounded stand-in."""
from pyvc.runner import Bounded

LEVEL = "other"
EXPLANATION = "bounded stand-in only so far: the contracts of this property are checked on the real functions over the stated finite domains (see coverage.bounded); nothing is counted as proved."
ASSUMPTIONS = []
CONTRACTS = []
BOUNDED = [Bounded("c08", "harness/c08.py", descr="see harness docstring", timeout=900)]
