"""SASLprep written from RFC 4013 on top of the RFC 3454 tables in the stdlib `stringprep` module.
Stored-string profile is not used: like RFC 4013 section 2.5 for "queries"? No -- passwords are
*stored strings*, unassigned code points (table A.1) are prohibited.  Shares nothing with passlib."""
import stringprep
import unicodedata


class Prohibited(ValueError):
    pass


def saslprep(s, allow_unassigned=False):
    # 2.1 mapping: C.1.2 -> SPACE, B.1 -> nothing
    out = []
    for ch in s:
        if stringprep.in_table_c12(ch):
            out.append(" ")
        elif stringprep.in_table_b1(ch):
            continue
        else:
            out.append(ch)
    # 2.2 normalisation KC
    t = unicodedata.normalize("NFKC", "".join(out))
    # 2.3 prohibited output
    for ch in t:
        if (
            stringprep.in_table_c12(ch)
            or stringprep.in_table_c21(ch)
            or stringprep.in_table_c22(ch)
            or stringprep.in_table_c3(ch)
            or stringprep.in_table_c4(ch)
            or stringprep.in_table_c5(ch)
            or stringprep.in_table_c6(ch)
            or stringprep.in_table_c7(ch)
            or stringprep.in_table_c8(ch)
            or stringprep.in_table_c9(ch)
        ):
            raise Prohibited("prohibited U+%04X" % ord(ch))
        # 2.5 unassigned code points
        if not allow_unassigned and stringprep.in_table_a1(ch):
            raise Prohibited("unassigned U+%04X" % ord(ch))
    # 2.4 bidi (RFC 3454 section 6)
    has_ral = any(stringprep.in_table_d1(ch) for ch in t)
    has_l = any(stringprep.in_table_d2(ch) for ch in t)
    if has_ral:
        if has_l:
            raise Prohibited("RandALCat together with LCat")
        if not (stringprep.in_table_d1(t[0]) and stringprep.in_table_d1(t[-1])):
            raise Prohibited("RandALCat string must start and end with RandALCat")
    return t
