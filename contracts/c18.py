"""C18 -- a disabled account can never log in and can be restored intact."""
import z3

from pyvc.contract import Bool, Bytes, Const, Contract, Int, Lemma, NoneT, Obj, Opt, Str, Union
from pyvc.runner import Bounded
from pyvc.values import SBool, SDict, SObj, SStr, SStub

LEVEL = "proof"
M = "passlib/handlers/misc.py"
DJ = "passlib/handlers/django.py"
CTX = "passlib/context.py"
EXPLANATION = (
    "unix_disabled / django_disabled identify, verify, hash, disable, enable are verified from their real source over "
    "arbitrary strings (string theory, cvc5/z3): a disabled string is identified, never verifies, disabling twice stays "
    "disabled, enable(disable(h)) == h (lemma over the two contracts), a bare marker cannot be enabled; "
    "CryptContext.verify/verify_and_update with hash=None return False after exactly one dummy verification; "
    "CryptContext.enable/disable/is_enabled delegate as stated."
)
ASSUMPTIONS = [
    "MAX_PASSWORD_SIZE == 4096 (PASSLIB_MAX_PASSWORD_SIZE unset)",
    "bytes hash arguments: ASCII text model (utf-8 decoding of ASCII is the identity)",
]

from pyvc.replay import py_replay  # noqa: E402

_UD = """
from passlib.hash import unix_disabled
def ident(h): return h == '' or h[0] in '*!'
"""
REPLAY_DISABLE = py_replay(_UD, "h = unix_disabled.using(marker=V['marker']); r = h.disable(V['hash'])",
                           "exc is None and ident(r) and r[0] == V['marker'] and (r == V['marker'] + V['hash'] if (V['hash'] and not ident(V['hash'])) else True) and (r == V['marker'] + V['hash'][1:] if (V['hash'] and ident(V['hash'])) else True) and (r == V['marker'] if not V['hash'] else True)",
                           {"hash": "!", "marker": "!"}, alts={"hash": {0: None}},
                           search=lambda seed: [{"hash": h, "marker": m} for m in "!*" for h in (None, "", "!", "*", "!abc", "*abc", "abc", "$1$x", seed.get("hash"))])
REPLAY_ENABLE = py_replay(_UD, "r = unix_disabled.enable(V['hash'])",
                          "(exc is None and r == V['hash'][1:] and len(V['hash']) >= 2 and ident(V['hash'])) or (isinstance(exc, ValueError) and (len(V['hash']) <= 1 or not ident(V['hash'])))",
                          {"hash": "!abc"}, search=lambda seed: [{"hash": h} for h in ("", "!", "*", "!abc", "*abc", "abc", "!!", seed.get("hash") or "x")])
REPLAY_IDENT = py_replay(_UD, "r = unix_disabled.identify(V['hash'])", "exc is None and r == ident(V['hash'])", {"hash": "*"},
                         search=lambda seed: [{"hash": h} for h in ("", "!", "*", "!abc", "*abc", "abc", "$1$x", " !")])

MARKER = Union(Const("!"), Const("*"))
UD = Obj(cls=(M, "unix_disabled"), is_class=True, fields={"default_marker": MARKER})
IDENT = "(len(hash) == 0 or hash[0:1] == '*' or hash[0:1] == '!' or hash[0:1] == b'*' or hash[0:1] == b'!')"

CONTRACTS = [
    Contract(
        "unix_disabled.identify", f"{M}::unix_disabled.identify",
        params={"cls": UD, "hash": Union(Str(), Bytes(), NoneT(), Int())},
        raises_iff={"TypeError": "not isinstance(hash, (str, bytes))"},
        ensures=[("identifies exactly the empty string and strings starting with a marker character", f"result == {IDENT}")],
        replay=REPLAY_IDENT,
        descr="every str / bytes / other value",
    ),
    Contract(
        "unix_disabled.verify", f"{M}::unix_disabled.verify",
        params={"cls": UD, "secret": Union(Str(), Bytes()), "hash": Str()},
        raises={"PasswordSizeError": "len(secret) > 4096", "ValueError": f"not {IDENT}"},
        ensures=[("a disabled hash never verifies, whatever the password", "result is False"), ("only reached for strings identified as disabled", IDENT)],
        descr="every password incl. empty and the hash text itself, every hash string",
    ),
    Contract(
        "unix_disabled.hash", f"{M}::unix_disabled.hash",
        params={"cls": UD, "secret": Str(), "kwds": Const(SDict())},
        raises={"PasswordSizeError": "len(secret) > 4096"},
        ensures=[("hash() returns the configured marker", "result == cls.default_marker")],
    ),
    Contract(
        "unix_disabled.disable", f"{M}::unix_disabled.disable",
        params={"cls": UD, "hash": Opt(Str())},
        ensures=[
            ("the result is identified as disabled", "len(result) >= 1 and (result[0:1] == '*' or result[0:1] == '!')"),
            ("the result starts with the configured marker", "result[0:1] == cls.default_marker"),
            ("a normal hash is embedded unchanged", f"implies(hash is not None and not {IDENT}, result == cls.default_marker + hash)"),
            ("an already disabled string keeps its embedded hash (marker normalised)", f"implies(hash is not None and len(hash) >= 1 and {IDENT}, result == cls.default_marker + hash[1:])"),
            ("no hash, empty string or bare marker: the bare marker", "implies(hash is None or len(hash) == 0, result == cls.default_marker)"),
        ],
        replay=REPLAY_DISABLE,
        descr="every original hash string incl. None, '', bare markers, already-disabled strings",
    ),
    Contract(
        "unix_disabled.enable", f"{M}::unix_disabled.enable",
        params={"cls": UD, "hash": Str()},
        raises={"ValueError": f"len(hash) <= 1 or not {IDENT}"},
        ensures=[("returns exactly the embedded original", "result == hash[1:] and len(hash) >= 2"), ("only for marker-prefixed strings", IDENT)],
        replay=REPLAY_ENABLE,
        descr="every string",
    ),
    Contract(
        "django_disabled.identify", f"{DJ}::django_disabled.identify",
        params={"cls": Obj(cls=(DJ, "django_disabled"), is_class=True), "hash": Union(Str(), NoneT())},
        raises_iff={"TypeError": "hash is None"},
        ensures=[("identifies exactly strings starting with '!'", "result == (hash[0:1] == '!')")],
    ),
    Contract(
        "django_disabled.verify", f"{DJ}::django_disabled.verify",
        params={"cls": Obj(cls=(DJ, "django_disabled"), is_class=True), "secret": Union(Str(), Bytes()), "hash": Str()},
        raises={"PasswordSizeError": "len(secret) > 4096", "ValueError": "not (hash[0:1] == '!')"},
        ensures=[("a disabled hash never verifies", "result is False")],
    ),
]


def _enable_disable_lemma():
    h, m = z3.Strings("h m")
    pre = [z3.Or(m == "!", m == "*"), z3.Length(h) >= 1, z3.SubString(h, 0, 1) != "!", z3.SubString(h, 0, 1) != "*"]
    d = z3.Concat(m, h)  # disable contract, normal-hash case
    en = z3.SubString(d, 1, z3.Length(d) - 1)  # enable contract
    d2 = z3.Concat(m, z3.SubString(d, 1, z3.Length(d) - 1))  # disable of an already disabled string
    return [
        ("enable(disable(h)) == h for every non-empty, non-marker h", pre, z3.And(en == h, z3.Length(d) >= 2)),
        ("disable(disable(h)) == disable(h): disabling twice stays disabled and keeps the original", pre, d2 == d),
    ]


LEMMAS = [Lemma("enable-disable", _enable_disable_lemma, "over the contracts of unix_disabled.disable / enable")]


# ---- CryptContext -----------------------------------------------------------------------------------
def counting(name, fn):
    def call(it, args, kwargs):
        if not it.spec:
            it.run.calls.append((name, ()))
        return fn(it, args, kwargs)

    return SStub(call, name)


def _verify_setup(it, args):
    rec = SObj("record", fields={"verify": counting("record.verify", lambda it2, a, k: SBool(z3.Bool("record.verify(secret, hash)")))})
    self = args["self"]
    self.fields["_get_or_identify_record"] = counting("_get_or_identify_record", lambda it2, a, k: rec)
    self.fields["_strip_unused_context_kwds"] = None
    self.fields["dummy_verify"] = counting("dummy_verify", lambda it2, a, k: None)
    return {"record": rec}


CONTRACTS.append(Contract(
    "CryptContext.verify", f"{CTX}::CryptContext.verify",
    params={"self": Obj(), "secret": Str(), "hash": Opt(Str()), "scheme": Const(None), "category": Const(None), "kwds": Const(SDict())},
    setup=_verify_setup,
    ensures=[
        ("missing hash: False after exactly one dummy verification, no real verification", "implies(hash is None, result is False and calls('dummy_verify') == 1 and calls('record.verify') == 0)"),
        ("otherwise the record's verdict, no dummy verification", "implies(hash is not None, result == record.verify(secret, hash) and calls('dummy_verify') == 0 and calls('record.verify') == 1)"),
    ],
))


def _rec_setup(it, args):
    dis = SBool(z3.Bool("record.is_disabled"))
    rec = SObj("record", fields={
        "is_disabled": dis,
        "enable": counting("record.enable", lambda it2, a, k: SStr(z3.String("record.enable(hash)"), "str")),
        "disable": counting("record.disable", lambda it2, a, k: SStr(z3.String("record.disable(hash)"), "str")),
    })
    self = args["self"]
    self.fields["_identify_record"] = counting("_identify_record", lambda it2, a, k: rec)
    self.fields["_config"] = SObj("config", fields={"disabled_record": rec})
    return {"record": rec}


CONTRACTS += [
    Contract(
        "CryptContext.is_enabled", f"{CTX}::CryptContext.is_enabled",
        params={"self": Obj(), "hash": Str()}, setup=_rec_setup,
        ensures=[("enabled iff the identified scheme is not a disabled one", "result == (not record.is_disabled)")],
    ),
    Contract(
        "CryptContext.enable", f"{CTX}::CryptContext.enable",
        params={"self": Obj(), "hash": Str()}, setup=_rec_setup,
        ensures=[("a normal hash is returned unchanged", "implies(not record.is_disabled, result == hash)"), ("a disabled one is handed to the disabled scheme's enable()", "implies(record.is_disabled, result == record.enable(hash))")],
    ),
    Contract(
        "CryptContext.disable", f"{CTX}::CryptContext.disable",
        params={"self": Obj(), "hash": Opt(Str())}, setup=_rec_setup,
        requires=["record.is_disabled"],
        ensures=[("delegates to the disabled scheme", "result == record.disable(hash)")],
    ),
]

# the dummy-verify cache must follow the configuration (contract shared with C10)
from contracts.c10 import CONTRACTS as _C10  # noqa: E402

CONTRACTS += [c for c in _C10 if c.id.startswith("CryptContext.load[")]

BOUNDED = [Bounded("c18", "harness/c18.py", descr="contexts x original hashes x disable/enable sequences", timeout=600)]

MUTANTS = [
    ("unix_disabled.identify: '*' not recognised", M, "        return not hash or hash[0] in start\n", "        return not hash or hash[0] == start[1]\n", "refute"),
    ("unix_disabled.verify returns True for the hash text", M, "            raise uh.exc.InvalidHashError(cls)\n        return False\n\n    @classmethod\n    def hash(", "            raise uh.exc.InvalidHashError(cls)\n        return secret == hash\n\n    @classmethod\n    def hash(", "refute"),
    ("unix_disabled.disable drops the embedded hash of an already disabled string", M, "            if hash:\n                out += hash\n", "            if hash and not cls.identify(hash):\n                out += hash\n", "refute"),
    ("unix_disabled.disable appends without normalising the marker", M, "                try:\n                    hash = cls.enable(hash)\n                except ValueError:\n                    # already disabled, and no original hash embedded\n                    hash = None\n", "                pass\n", "refute"),
    ("unix_disabled.enable returns with the marker", M, "                orig = hash[len(prefix) :]\n", "                orig = hash[len(prefix) - 1 :]\n", "refute"),
    ("unix_disabled.enable accepts the bare marker", M, "                if orig:\n                    return orig\n                raise ValueError(\"cannot restore original hash\")", "                return orig", "refute"),
    ("django_disabled.verify True for empty password", DJ, "            raise uh.exc.InvalidHashError(cls)\n        return False\n", "            raise uh.exc.InvalidHashError(cls)\n        return not secret\n", "refute"),
    ("CryptContext.verify: None hash skips the dummy verify", CTX, "            self.dummy_verify()\n            return False\n", "            return False\n", "refute"),
    ("CryptContext.enable re-enables through the wrong branch", CTX, "        if record.is_disabled:\n            # XXX: should we throw", "        if not record.is_disabled:\n            # XXX: should we throw", "refute"),
]

# ---- which disabled hasher a context uses: the FIRST one in the scheme list (the one identification will name, too) --------------
from pyvc.contract import Bool as _Bool, Contract as _Contract, Obj as _Obj  # noqa: E402
from pyvc.values import SList as _SList, SObj as _SObj, SStub as _SStub  # noqa: E402


def _dr_setup(it, args):
    recs = [_SObj(f"record{i}", fields={"is_disabled": _Bool().make(it, f"record{i}.is_disabled"), "index": i}) for i in range(3)]
    args["self"].fields["_get_record_list"] = _SStub(lambda i, a, k: _SList(list(recs)), "_get_record_list")
    it.run.ghost["recs"] = recs
    return {f"d{i}": r.fields["is_disabled"] for i, r in enumerate(recs)}


CONTRACTS.append(_Contract(
    "_CryptConfig.disabled_record", "passlib/context.py::_CryptConfig.disabled_record",
    params={"self": _Obj()},
    setup=_dr_setup,
    raises_iff={"RuntimeError": "not d0 and not d1 and not d2"},
    ensures=[("disable() uses the first disabled hasher of the scheme list -- the same one identification attributes a disabled string to",
              lambda it, env: it.to_zbool(it.truth(it.cmp_vals("==", it.resolve(env.lookup("result")).fields["index"], it.spec_eval("0 if d0 else (1 if d1 else 2)", env)))))],
    descr="three schemes, each a disabled hasher or not",
))
MUTANTS.append(("disabled_record picks the last disabled hasher", "passlib/context.py", "        for record in self._get_record_list(None):\n            if record.is_disabled:\n                return record", "        for record in reversed(self._get_record_list(None)):\n            if record.is_disabled:\n                return record", "refute", "disabled_record"))

# ---- a derived unix_disabled hasher (using(marker=...)) differs from the shipped one in its default marker ONLY: what it
#      identifies as disabled and which prefixes enable() strips (_disable_prefixes) stay the class's, so enable(disable(h))
#      == h and "bare marker refused" (proved above over the class constants) carry over to every derived hasher ----
from contracts import c09_frames as _fr  # noqa: E402


def _using_only_marker(it, env):
    sub = it.run.ghost.get("sub")
    if sub is None:
        return z3.BoolVal(False)
    # only the attributes the disabled-hash behaviour reads matter (another bookkeeping attribute is not a violation)
    return z3.BoolVal(not (set(sub.fields) & {"_disable_prefixes", "identify", "verify", "enable", "disable", "hash", "genhash"}))


_ud = next(t for t in _fr.TARGETS if t[0] == "unix_disabled.using")
CONTRACTS.append(_Contract(
    "unix_disabled.using[marker only]", "passlib/handlers/misc.py::unix_disabled.using",
    params={"cls": _Obj(cls=("passlib/handlers/misc.py", "unix_disabled"), is_class=True, fields=_ud[5]), **_ud[4]},
    globals=dict(_fr.G),
    raises={"ValueError": None, "TypeError": None},
    ensures=[("the derived hasher overrides neither the prefixes enable() strips nor identify / verify / enable / disable / hash: they are inherited unchanged", _using_only_marker)],
    canary=False,
    descr="arbitrary marker (None or any string); identify() abstract",
))
MUTANTS.append(("unix_disabled.using narrows the prefixes enable() strips to the custom marker", "passlib/handlers/misc.py", "            subcls.default_marker = marker\n", "            subcls.default_marker = marker\n            subcls._disable_prefixes = (marker,)\n", "refute", r"using\[marker only"))
