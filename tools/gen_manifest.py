#!/usr/bin/env python3
"""Regenerate MANIFEST.json from tools/manifest_data.py (single source of truth)."""
import json, os, sys
HERE = os.path.dirname(os.path.abspath(__file__))
sys.path.insert(0, HERE)
from manifest_data import CHECKS, NOT_APPLICABLE, NOTES

props = [json.loads(l) for l in open(os.path.join(HERE, "..", "properties.jsonl"))]
ids = [p["id"] for p in props]
checks = []
for pid in ids:
    if pid not in CHECKS:
        continue
    c = CHECKS[pid]
    checks.append({
        "property_id": pid,
        "quick_cmd": f"./check {pid} --tier quick",
        "thorough_cmd": f"./check {pid} --tier thorough",
        "evidence_file": f"/verif/evidence/{pid}.json",
        "replay_cmd_template": f"./check {pid} --replay {{path}}",
        "engine": "pyvc",
        "level_claimed": {"category": c["category"], "text": c["text"], "design_ref": f"DESIGN.md section 6 ({pid})"},
        "level_note": c["note"],
        "technique": c["technique"],
    })
na = [{"property_id": pid, "reason": NOT_APPLICABLE.get(pid, "check not built yet in this round (see DESIGN.md build order)")} for pid in ids if pid not in CHECKS]
man = {
    "version": 1,
    "setup_cmd": "python3-vt -m pyvc.selftest --fast",
    "hooks": {"guard": "PASSLIB_VERIF", "enable": "no hooks are compiled into /repo; contracts are sidecar files under /verif/contracts and the functions are re-read from /repo on every run", "baseline_off_cmd": "python3 tools/baseline_check.py", "source_commits": [], "add_only": True},
    "engines": [{"name": "pyvc", "path": "/verif/pyvc", "serves_properties": [c["property_id"] for c in checks], "kind_free_text": "contract-based deductive verifier for a Python subset: AST of the real functions -> verification conditions -> z3 / cvc5; bounded stand-ins run the same contracts on the real library"}],
    "checks": checks,
    "notes": NOTES,
    "not_applicable": na,
}
json.dump(man, open(os.path.join(HERE, "..", "MANIFEST.json"), "w"), indent=1)
print("checks:", [c["property_id"] for c in checks], "not_applicable:", [n["property_id"] for n in na])
