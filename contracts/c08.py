"""C08 -- malformed or altered hash strings are rejected cleanly and never verify."""
import ast
import os

import z3

from contracts.trusted import COMMON, fresh_str
from pyvc import extract
from pyvc.contract import Loop, Bytes, Const, Contract, Int, NoneT, Obj, Str, Union
from pyvc.runner import Bounded
from pyvc.values import SDict, SObj, SStub

LEVEL = "proof"
EXPLANATION = (
    "Exception frame: for every parser entry point (from_string / identify / needs_update / _norm_hash / parse helpers) "
    "found in passlib/handlers/*.py and passlib/utils/handlers.py the real body is executed symbolically on an ARBITRARY "
    "str (and ASCII-bytes) input; every path that leaves the function raises only ValueError/TypeError subclasses "
    "(identify: returns a bool, never raises): no IndexError, KeyError, AttributeError, AssertionError, UnicodeError "
    "outside ValueError. HasSalt._parse_salt / HasRounds._parse_rounds (and sha-crypt's overrides) are proved to validate a parsed "
    "hash strictly whatever the class was customised with. 'An altered digest never verifies' is covered by the bounded stand-in."
)
ASSUMPTIONS = [
    "constructors (cls(...)) raise only ValueError/TypeError: their validators _norm_salt/_norm_rounds/_norm_checksum are under contract separately (C09) and swept by the bounded stand-in",
    "regex engine: match() returns None or a match object whose groups are arbitrary strings / None (over-approximation)",
    "binary codecs raise only ValueError/TypeError (C12 contracts)",
    "str.split results with more than 6 parts are represented by 7 parts (scram: more than 3 by 4; its parser compares the number of parts with 2 and 3 only)",
]

HANDLER_FILES = sorted("passlib/handlers/" + f for f in os.listdir(os.path.join(extract.REPO, "passlib/handlers")) if f.endswith(".py") and f not in ("__init__.py", "argon2.py"))
HANDLER_FILES.append("passlib/utils/handlers.py")


def _new_instance(it, args, kwargs):
    cls = args[0]
    inst = SObj(it.run.fresh(f"new {cls.name}"), cls=cls.cls, fresh=True)
    inst.parent = cls
    for k, v in kwargs.items():
        inst.fields.setdefault(k, v)
    inst.fields["to_string"] = SStub(lambda i, a, k: fresh_str(i, "to_string"), "to_string")
    inst.fields["_calc_needs_update"] = SStub(lambda i, a, k: __import__("pyvc.values", fromlist=["SBool"]).SBool(z3.Bool(i.run.fresh("needs_update"))), "_calc_needs_update")
    return inst


GLOBALS = dict(COMMON)
GLOBALS["new.*"] = SStub(_new_instance, "constructor", trusted="cls(**kwds) raises only ValueError/TypeError (validators under their own contracts)")


from pyvc.symexec import ClassRef  # noqa: E402
from pyvc.values import Unsupported  # noqa: E402

ENTRY_POINTS = ("from_string", "identify", "needs_update")
MODULE_FUNCS = {"passlib/utils/handlers.py": ("parse_mc2", "parse_mc3", "parse_int", "to_unicode_for_identify"), "passlib/handlers/mssql.py": ("_parse_mssql",)}
EXTRA_METHODS = {("passlib/handlers/scrypt.py", "scrypt"): ("parse", "_parse_scrypt_string", "_parse_7_string")}


def _concrete_handlers(relpath):
    """classes that carry their own ``name = "<registry name>"``"""
    tree, _ = extract.module_ast(relpath)
    for node in tree.body:
        if isinstance(node, ast.ClassDef):
            for st in node.body:
                if isinstance(st, ast.Assign) and any(isinstance(t, ast.Name) and t.id == "name" for t in st.targets) and isinstance(st.value, ast.Constant) and isinstance(st.value.value, str):
                    yield node.name
                    break


def _contract(cid, target, params, is_identify, descr):
    return Contract(
        cid, target, params=params, globals=GLOBALS,
        raises={} if is_identify else {"ValueError": None, "TypeError": None},
        ensures=[("identify answers a bool", "result is True or result is False")] if is_identify and "to_unicode" not in cid else [],
        max_paths=1500, max_depth=8, canary=False, prune_timeout_ms=100, descr=descr,
        **({} if cid.startswith("scram.") else {"time_budget": 40}),
        # character loops over the input that only test each character: no invariant is needed for the exception frame
        loops={"_norm_hash#0": Loop(invariant=[], modifies=["char"])} if cid.startswith("htdigest.") else {},
        # scram nests two split loops: 3-part representatives keep the path count finite (its code compares len() with 2 / 3 only)
        split_limit=3 if cid.startswith("scram.") else 6,
        **({"time_budget": 120} if cid.startswith("scram.") else {}),
        # the bytes variants of needs_update differ from the str ones only by the initial ascii decoding,
        # which from_string[bytes] already covers: thorough tier only
        tier="thorough" if cid.endswith("needs_update[bytes]") else "quick",
    )


CONTRACTS = []
for _f in HANDLER_FILES:
    if _f.endswith("utils/handlers.py"):
        continue
    for _cls in _concrete_handlers(_f):
        try:
            cref = ClassRef.get(_f, _cls)
            entries = list(ENTRY_POINTS) + list(EXTRA_METHODS.get((_f, _cls), ()))
            for _m in entries:
                found = cref.find_attr(_m)
                if found is None:
                    continue
                owner, kind, node = found
                if kind != "func":
                    continue
                argnames = [a.arg for a in node.args.args]
                hp = next((a for a in argnames if a in ("hash", "suffix")), None)
                if hp is None:
                    continue
                for _kind, _t in (("str", Str()), ("bytes", Bytes(ascii=True))):
                    if _kind == "bytes" and _m.startswith("_parse"):
                        continue
                    params = {argnames[0]: Obj(cls=(_f, _cls), is_class=True), hp: _t}
                    if node.args.kwarg:
                        params[node.args.kwarg.arg] = Const(SDict())
                    CONTRACTS.append(_contract(f"{_cls}.{_m}[{_kind}]", f"{owner.relpath}::{owner.name}.{_m}", params, _m == "identify", f"arbitrary {_kind} input; method body of {owner.name}"))
        except (Unsupported, extract.ExtractError):
            continue

for _f, names in MODULE_FUNCS.items():
    tree, _ = extract.module_ast(_f)
    for node in tree.body:
        if isinstance(node, ast.FunctionDef) and node.name in names:
            argnames = [a.arg for a in node.args.args]
            for _kind, _t in (("str", Str()), ("bytes", Bytes(ascii=True))):
                params = {argnames[0]: _t}
                if "prefix" in argnames:
                    params["prefix"] = "$x$"
                if "handler" in argnames:
                    params["handler"] = Obj(fields={"name": "handler"})
                if node.name == "_parse_mssql":
                    params.update({"csize": 40, "bsize": 20})
                if node.name == "parse_int":
                    if _kind == "bytes":
                        continue
                    params = {"source": Str(), "handler": Obj(fields={"name": "handler"})}
                CONTRACTS.append(_contract(f"{node.name}[{_kind}]", f"{_f}::{node.name}", params, node.name == "to_unicode_for_identify", f"arbitrary {_kind} input"))

# ---- an altered salt / rounds field must not be silently repaired for a full hash -----------------------------
def _capture(name):
    def call(it, args, kwargs):
        it.run.ghost[name] = kwargs.get("relaxed", args[1] if len(args) > 1 else False)
        return args[0]

    return SStub(call, name)


for _m, _helper in (("_parse_salt", "_norm_salt"), ("_parse_rounds", "_norm_rounds")):
    CONTRACTS.append(Contract(
        f"_SHA2_Common.{_m}", f"passlib/handlers/sha2_crypt.py::_SHA2_Common.{_m}",
        params={"self": Obj(fields={"checksum": Union(NoneT(), Str()), _helper: _capture(_helper), "use_defaults": __import__("pyvc.contract", fromlist=["Bool"]).Bool()}),
                ("salt" if _m == "_parse_salt" else "rounds"): Str() if _m == "_parse_salt" else Int()},
        ensures=[("silent repair (relaxed) only for config strings without a digest; a full hash with an out-of-range field is refused",
                  lambda it, env, _h=_helper: it.cmp_vals("==", it.run.ghost[_h], it.identity(env.lookup("self").fields["checksum"], None)))],
        canary=False,
        descr="sha256_crypt / sha512_crypt: altered salt / rounds field of a stored hash",
    ))

# the generic mixins: a stored hash is parsed STRICTLY whatever the class was customised with (CryptContext builds its
# records with using(relaxed=True); that leniency must not leak into from_string)
for _m, _helper, _cls in (("_parse_salt", "_norm_salt", "HasSalt"), ("_parse_rounds", "_norm_rounds", "HasRounds")):
    CONTRACTS.append(Contract(
        f"{_cls}.{_m}", f"passlib/utils/handlers.py::{_cls}.{_m}",
        params={"self": Obj(fields={"checksum": Union(NoneT(), Str()), _helper: _capture(_helper), "use_defaults": __import__("pyvc.contract", fromlist=["Bool"]).Bool(),
                                    "relaxed": __import__("pyvc.contract", fromlist=["Bool"]).Bool()}),
                ("salt" if _m == "_parse_salt" else "rounds"): Str() if _m == "_parse_salt" else Int()},
        ensures=[("an out-of-range salt / cost of a parsed hash is never silently repaired: the validator is called strict",
                  lambda it, env, _h=_helper: it.to_zbool(it.truth(it.cmp_vals("==", it.run.ghost[_h], False))))],
        canary=False,
        descr="any instance state, incl. a class customised with relaxed=True",
    ))

from contracts import c20_libpass as _lp  # noqa: E402

# libpass reads a bytes hash strictly before parsing it (shared with C20)
CONTRACTS += [c for c in _lp.CONTRACTS if c.id.startswith("libpass.as_str")]
from contracts import c07_handlers as _h7  # noqa: E402

# sha-crypt parses a full hash with its digest in hand, so that an altered salt / cost is refused rather than repaired (shared with C07)
CONTRACTS += [c for c in _h7.CONTRACTS if "crypt.from_string[" in c.id and "digest" in c.id and c.id.startswith("sha")]
BOUNDED = [Bounded("c08", "harness/c08.py", descr="single-edit neighbours of valid hashes, arbitrary strings", timeout=900)]

P = "passlib/handlers/"
MUTANTS = [
    ("sha2_crypt: over-long salt of a full hash silently truncated", P + "sha2_crypt.py", "        return self._norm_salt(salt, relaxed=self.checksum is None)", "        return self._norm_salt(salt, relaxed=not self.use_defaults)", "refute", "_SHA2_Common._parse"),
    ("phpass: guard for empty payload removed", P + "phpass.py", "        if not data:\n            raise uh.exc.MalformedHashError(cls, \"missing rounds\")\n", "", "refute", "^phpass"),
    ("bcrypt.needs_update: length guard removed", P + "bcrypt.py", "            and len(hash) > 28\n", "", "refute", "^_BcryptCommon"),
    ("scrypt: parameter names checked by assert", P + "scrypt.py", "            if not (\n                nstr.startswith(\"ln=\")\n                and bstr.startswith(\"r=\")\n                and pstr.startswith(\"p=\")\n            ):\n                raise uh.exc.MalformedHashError(cls, \"malformed settings field\")\n", "            assert nstr.startswith(\"ln=\")\n", "undecided", "^scrypt"),
    ("des_crypt: indexes instead of slices", P + "des_crypt.py", "        salt, chk = hash[:2], hash[2:]\n        return cls(salt=salt, checksum=chk or None)\n\n    def to_string(self):\n        return f\"{self.salt}{self.checksum or ''}\"\n\n    def _calc_checksum(self, secret):\n        # check for truncation", "        salt, chk = hash[0] + hash[1], hash[2:]\n        return cls(salt=salt, checksum=chk or None)\n\n    def to_string(self):\n        return f\"{self.salt}{self.checksum or ''}\"\n\n    def _calc_checksum(self, secret):\n        # check for truncation", "refute", "^des_crypt"),
    ("parse_mc3: unpack without length check", "passlib/utils/handlers.py", "    if len(parts) == 3:\n        rounds, salt, chk = parts\n    elif len(parts) == 2:\n        rounds, salt = parts\n        chk = None\n    else:\n        raise exc.MalformedHashError(handler)\n", "    if len(parts) >= 3:\n        rounds, salt, chk = parts\n    else:\n        rounds, salt = parts\n        chk = None\n", "hold", "^parse_mc3|^sha1_crypt"),  # a wrong part count then raises ValueError from the unpacking: still a value error
    ("cisco_type7: length guard off by one", P + "cisco.py", "        if len(hash) < 2:\n            raise uh.exc.InvalidHashError(cls)\n        salt = int(hash[:2])", "        if len(hash) < 1:\n            raise uh.exc.InvalidHashError(cls)\n        salt = int(hash[0] + hash[1])", "refute", "^cisco_type7"),
    ("harmless: phpass message text", P + "phpass.py", "\"missing rounds\"", "\"no rounds\"", "hold", "^phpass"),
    ("HasSalt._parse_salt: leniency of the customised class leaks into parsing", "passlib/utils/handlers.py", "    def _parse_salt(self, salt):\n        return self._norm_salt(salt)\n", "    def _parse_salt(self, salt):\n        return self._norm_salt(salt, relaxed=getattr(self, \"relaxed\", False))\n", "refute", "HasSalt._parse_salt"),
    ("HasRounds._parse_rounds: cost below the minimum clamped while parsing", "passlib/utils/handlers.py", "    def _parse_rounds(self, rounds):\n        return self._norm_rounds(rounds)\n", "    def _parse_rounds(self, rounds):\n        return self._norm_rounds(rounds, relaxed=True)\n", "refute", "HasRounds._parse_rounds"),
]

# ---- a parsed parallelism value is validated, whatever it is (0 is refused, not replaced by the class default) --------------------
from pyvc.contract import Opt as _Opt  # noqa: E402

CONTRACTS.append(Contract(
    "ParallelismMixin.__init__", "passlib/utils/handlers.py::ParallelismMixin.__init__",
    params={"self": Obj(cls=("passlib/utils/handlers.py", "ParallelismMixin"), fields={"parallelism": 1, "name": "handler", "_norm_parallelism": SStub(
        lambda it, a, k: (it.may_raise("ValueError", it.to_z3(a[0], "int") >= 1), a[0])[1], "_norm_parallelism", trusted="norm_integer(min=1), strict: own contract under C09")}),
            "parallelism": _Opt(Int()), "kwds": Const(SDict())},
    globals={"super.__init__": SStub(lambda it, a, k: None, "GenericHandler.__init__"), "validate_default_value": SStub(lambda it, a, k: True, "validate_default_value")},
    raises={"ValueError": "parallelism is not None and parallelism < 1"},
    ensures=[("a given parallelism is kept exactly (>= 1) -- never silently replaced by the class default", "self.parallelism == (1 if parallelism is None else parallelism) and (parallelism is None or parallelism >= 1)")],
    canary=False,
    descr="every parsed parallelism value incl. 0 and negatives",
))
MUTANTS.append(("ParallelismMixin: parallelism 0 falls back to the class default", "passlib/utils/handlers.py", "        if parallelism is None:\n            assert validate_default_value(\n                self, self.parallelism, self._norm_parallelism, param=\"parallelism\"\n            )\n        else:\n            self.parallelism = self._norm_parallelism(parallelism)", "        if parallelism:\n            self.parallelism = self._norm_parallelism(parallelism)\n        else:\n            assert validate_default_value(\n                self, self.parallelism, self._norm_parallelism, param=\"parallelism\"\n            )", "refute", "ParallelismMixin.__init__"))

# ---- "an altered setting never verifies": libpass' bcrypt-sha256 keys its pre-hash with the record's SALT FIELD, so a record whose
#      salt/digest separator was moved (same bcrypt string, another salt field) does not verify (contract shared with C20) ----
from contracts import c20_libpass as _lp20  # noqa: E402

CONTRACTS += [c for c in _lp20.CONTRACTS if c.id == "libpass.BcryptSHA256Hasher.verify"]
