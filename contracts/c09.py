"""C09 -- using() gives a hasher that honours its settings; the original is untouched."""
import z3

from contracts.rounds_common import CLS, EXC, H, RNG, WARNS, cls_fields, eff, inv, needs_update_rounds
from pyvc.contract import Bool, Const, Contract, Int, NoneT, Obj, Opt, Str, UF, Union
from pyvc.runner import Bounded
from pyvc.values import SDict, SObj, SStub

LEVEL = "proof"
EXPLANATION = (
    "norm_integer (strict: refuse outside [min, max]; relaxed: clamp), HasRounds.using (all None/int/decimal-string "
    "combinations of the seven rounds keywords, relaxed on/off) and the salt-size clipping are verified from their real "
    "source: aliases exclusive, inconsistent windows refused, the resulting class satisfies the policy invariant and hard "
    "limits, and every write goes to the fresh subclass only (frame). The remaining using() overrides and end-to-end "
    "behaviour are covered by the bounded stand-in."
)
ASSUMPTIONS = [
    "MinimalHandler.using returns a fresh subclass of cls (type(name, (cls,), {})): attribute reads fall through to cls, writes stay in the subclass",
    "int(str) model: decimal digit strings only; other spellings over-approximated (raise or unconstrained int)",
    "float / percent vary_rounds outside the proved fragment (bounded stand-in)",
]

OPTINT = Union(NoneT(), Int())
RELAXED = Union(NoneT(), Bool())

from pyvc.replay import py_replay  # noqa: E402

_NI = """
from passlib.utils.handlers import norm_integer
class Hd: name = 'handler'
def want(value, mn, mx, relaxed):
    if not isinstance(value, int): return ('TypeError', None)
    lo = value < mn; hi = bool(mx) and value > mx
    if not relaxed and (lo or hi): return ('ValueError', None)
    v = mn if lo else value
    if mx and v > mx: v = mx
    return (None, v)
"""
REPLAY_NORM = py_replay(_NI, "r = norm_integer(Hd, V['value'], V['min'], V['max'], relaxed=V['relaxed'])",
                        "(lambda w: (type(exc).__name__ if exc else None, r) == w or (w[0] is not None and isinstance(exc, (ValueError, TypeError)) and issubclass(type(exc), {'ValueError': ValueError, 'TypeError': TypeError}[w[0]])))(want(V['value'], V['min'], V['max'], V['relaxed']))",
                        {"value": 0, "min": 1, "max": None, "relaxed": False}, alts={"value": {1: "x", 2: None}, "max": {0: None}, "relaxed": {0: None}})

norm_integer = Contract(
    "norm_integer", f"{H}::norm_integer",
    params={"handler": Obj(fields={"name": "handler"}), "value": Union(Int(), Str(), NoneT()), "min": Int(), "max": Opt(Int()), "param": Const("value"), "relaxed": RELAXED},
    globals=dict(WARNS),
    raises_iff={
        "TypeError": "not isinstance(value, int)",
    },
    raises={
        "ValueError": f"isinstance(value, int) and not relaxed and (value < min or ({eff('max')} and value > max))",
    },
    ensures=[
        ("strict: the value is returned unchanged and lies inside the limits", f"implies(not relaxed, result == value and value >= min and not ({eff('max')} and value > max))"),
        ("relaxed: never above the maximum", f"implies({eff('max')}, result <= max)"),
        ("relaxed: never below the minimum unless the maximum is below the minimum", f"implies(not ({eff('max')} and max < min), result >= min)"),
        ("an admissible value is never changed", f"implies(value >= min and not ({eff('max')} and value > max), result == value)"),
        ("relaxed clamps to the nearest limit", f"implies(relaxed and value < min and not ({eff('max')} and min > max), result == min) and implies(relaxed and value >= min and {eff('max')} and value > max, result == max)"),
    ],
    replay=REPLAY_NORM,
    descr="all ints / wrong types, limits None or int, relaxed None/False/True",
)


def _fresh_subclass(it, args, kwargs):
    cls = args[0]
    sub = SObj("subcls", is_class=True, fresh=True)
    sub.parent = cls
    sub.cls = None
    return sub


def _using_setup(it, args):
    relaxed = RELAXED.make(it, "relaxed")
    args["kwds"] = SDict({"relaxed": relaxed})
    return {"relaxed": relaxed}


def hard_ok(c, x):
    return f"implies({x} is not None, {x} >= {c}.min_rounds and not ({eff(c + '.max_rounds')} and {x} > {c}.max_rounds))"


N = Const(None)
OI = Union(NoneT(), Int())
OIS = Union(NoneT(), Int(), Str())


def using_contract(cid, params, extra_requires, window_ensures, descr, cls=None):
    allp = {"cls": cls or CLS(), "min_desired_rounds": N, "max_desired_rounds": N, "default_rounds": N, "vary_rounds": N, "min_rounds": N, "max_rounds": N, "rounds": N}
    allp.update(params)
    return Contract(
        cid, f"{H}::HasRounds.using",
        params=allp,
        setup=_using_setup,
        globals={**WARNS, "super.using": SStub(_fresh_subclass, "MinimalHandler.using", trusted="returns a fresh subclass")},
        requires=[inv("cls"), "cls.min_rounds >= 0", hard_ok("cls", "cls.min_desired_rounds"), hard_ok("cls", "cls.max_desired_rounds"), hard_ok("cls", "cls.default_rounds"),
                  f"implies({eff('cls.max_rounds')}, cls.max_rounds >= cls.min_rounds)"] + extra_requires,
        raises={"TypeError": "(min_rounds is not None and min_desired_rounds is not None) or (max_rounds is not None and max_desired_rounds is not None)", "ValueError": None},
        modifies=[],  # no write to any pre-existing object: cls and its ancestors keep every attribute
        ensures=window_ensures + [
            ("aliases were not both given", "not (min_rounds is not None and min_desired_rounds is not None) and not (max_rounds is not None and max_desired_rounds is not None)"),
            ("configured values respect the hard limits", hard_ok("result", "result.min_desired_rounds") + " and " + hard_ok("result", "result.max_desired_rounds") + " and " + hard_ok("result", "result.default_rounds")),
            ("vary_rounds is never negative", "implies(result.vary_rounds is not None, result.vary_rounds >= 0)"),
            ("the result is the fresh subclass, not cls", "result is not cls"),
        ],
        max_paths=30000,
        descr=descr,
    )


UNCONF = ["cls.min_desired_rounds is None", "cls.max_desired_rounds is None"]
INV_OK = [("the new class satisfies the policy invariant (window consistent, default inside it)", inv("result"))]
# recorded witness class: one limit given alone contradicts the inherited opposite limit
CHAIN_WITNESS = ("((min_desired_rounds is not None and max_desired_rounds is None and " + eff("cls.max_desired_rounds") + " and min_desired_rounds > cls.max_desired_rounds) or "
                 "(max_desired_rounds is not None and min_desired_rounds is None and " + eff("cls.min_desired_rounds") + " and max_desired_rounds < cls.min_desired_rounds) or "
                 "(default_rounds is not None and False))")
INV_CHAIN = [
    ("the new class satisfies the policy invariant (outside the recorded witness class)", f"implies(not {CHAIN_WITNESS}, " + inv("result") + ")"),
    ("the new class satisfies the policy invariant when a single limit contradicts the inherited one [using:chained-min-above-inherited-max]", f"implies({CHAIN_WITNESS}, " + inv("result") + ")"),
]


def fresh_cls():
    return CLS(min_desired_rounds=None, max_desired_rounds=None)


CONTRACTS = [
    norm_integer,
    using_contract("HasRounds.using[unconfigured class; min/max/default]", {"min_desired_rounds": OI, "max_desired_rounds": OI, "default_rounds": OI}, [], INV_OK,
                   "class without an inherited window; min/max/default desired rounds None or int", cls=fresh_cls()),
    using_contract("HasRounds.using[unconfigured class; rounds + default]", {"rounds": OI, "default_rounds": OI, "max_desired_rounds": OI}, [], INV_OK,
                   "the 'rounds' shorthand with explicit default / max", cls=fresh_cls()),
    using_contract("HasRounds.using[unconfigured class; aliases]", {"min_rounds": OI, "max_rounds": OI, "min_desired_rounds": OI, "max_desired_rounds": OI}, [], INV_OK,
                   "CryptContext aliases min_rounds/max_rounds vs the *_desired_* names", cls=fresh_cls()),
    using_contract("HasRounds.using[unconfigured class; vary_rounds]", {"vary_rounds": OI, "default_rounds": OI}, [], INV_OK,
                   "integer vary_rounds", cls=fresh_cls()),
    using_contract("HasRounds.using[unconfigured class; min as decimal string]", {"min_desired_rounds": Str(), "max_desired_rounds": OI}, [], INV_OK, "min_desired_rounds given as a string", cls=fresh_cls()),
    using_contract("HasRounds.using[unconfigured class; max as decimal string]", {"max_desired_rounds": Str(), "min_desired_rounds": OI}, [], INV_OK, "max_desired_rounds given as a string", cls=fresh_cls()),
    using_contract("HasRounds.using[unconfigured class; default as decimal string]", {"default_rounds": Str(), "max_desired_rounds": OI}, [], INV_OK, "default_rounds given as a string", cls=fresh_cls()),
    using_contract("HasRounds.using[derived class; min]", {"min_desired_rounds": OI}, [], INV_CHAIN, "chain of using(): later min on a class with an inherited window"),
    using_contract("HasRounds.using[derived class; max]", {"max_desired_rounds": OI}, [], INV_CHAIN, "chain of using(): later max on a class with an inherited window"),
    using_contract("HasRounds.using[derived class; default]", {"default_rounds": OI}, [], INV_CHAIN, "chain of using(): later default on a class with an inherited window"),
    using_contract("HasRounds.using[derived class; min+max]", {"min_desired_rounds": Int(), "max_desired_rounds": Int()}, [], INV_OK, "chain of using(): both limits given again"),
]

# ---- salts ------------------------------------------------------------------------------------------------
H64 = "./0123456789ABCDEFGHIJKLMNOPQRSTUVWXYZabcdefghijklmnopqrstuvwxyz"
SALT_CLS = Obj(cls=(H, "HasSalt"), is_class=True, fields={"_salt_is_bytes": False, "salt_chars": H64, "min_salt_size": Int(lo=0), "max_salt_size": Opt(Int(lo=0)),
                                                      "name": "handler", "_salt_unit": "chars"})
IN_ALPHABET = "all(c in '" + H64 + "' for c in salt)"
CONTRACTS.append(Contract(
    "HasSalt._norm_salt", f"{H}::HasSalt._norm_salt",
    params={"cls": SALT_CLS, "salt": Union(Str(), NoneT(), Int()), "relaxed": Bool()},
    globals=dict(WARNS),
    requires=[f"implies({eff('cls.max_salt_size')}, cls.max_salt_size >= cls.min_salt_size)"],
    raises={"TypeError": "not isinstance(salt, str)",
            "ValueError": f"isinstance(salt, str) and (not {IN_ALPHABET} or len(salt) < cls.min_salt_size or (not relaxed and {eff('cls.max_salt_size')} and len(salt) > cls.max_salt_size))"},
    ensures=[
        ("only salts over the alphabet are accepted", IN_ALPHABET),
        ("never shorter than the minimum", "len(result) >= cls.min_salt_size"),
        ("never longer than the maximum", f"implies({eff('cls.max_salt_size')}, len(result) <= cls.max_salt_size)"),
        ("strict: the salt is returned unchanged", "implies(not relaxed, result == salt)"),
        ("relaxed: an over-long salt is cut to the maximum, nothing else changes", f"implies(relaxed, result == (salt[0:cls.max_salt_size] if ({eff('cls.max_salt_size')} and len(salt) > cls.max_salt_size) else salt))"),
    ],
    descr="text salts over the hash64 alphabet, any size window",
))

# ---- truncation policy ---------------------------------------------------------------------------------
for _val, _want in ((Bool(), None), (Const("false"), False), (Const("true"), True), (Const("no"), False), (Const("off"), False), (Const(0), False), (Const(1), True)):
    CONTRACTS.append(Contract(
        f"TruncateMixin.using[truncate_error={getattr(_val, 'value', 'bool')!r}]", f"{H}::TruncateMixin.using",
        params={"cls": Obj(cls=(H, "TruncateMixin"), is_class=True, fields={"truncate_error": Bool(), "truncate_size": 8, "name": "handler"}), "truncate_error": _val, "kwds": Const(SDict())},
        globals={"super.using": SStub(_fresh_subclass, "MinimalHandler.using", trusted="returns a fresh subclass")},
        modifies=[],
        ensures=[("the new hasher carries exactly the requested policy, whatever the parent's was",
                  "result.truncate_error == truncate_error" if _want is None else f"result.truncate_error is {_want}"),
                 ("the result is a fresh subclass", "result is not cls")],
        descr="explicit policy given as bool / string / number on a parent with either policy",
    ))
CONTRACTS.append(Contract(
    "TruncateMixin.using[truncate_error=None]", f"{H}::TruncateMixin.using",
    params={"cls": Obj(cls=(H, "TruncateMixin"), is_class=True, fields={"truncate_error": Bool(), "truncate_size": 8, "name": "handler"}), "truncate_error": Const(None), "kwds": Const(SDict())},
    globals={"super.using": SStub(_fresh_subclass, "MinimalHandler.using", trusted="returns a fresh subclass")},
    modifies=[],
    ensures=[("without an explicit policy the parent's is inherited", "result.truncate_error == cls.truncate_error")],
))

from contracts import c09_frames  # noqa: E402

CONTRACTS += c09_frames.CONTRACTS
from contracts import c04 as _c04  # noqa: E402

CONTRACTS += [c for c in _c04.CONTRACTS if c.id == "_generate_rounds"]  # incl. its frame: the customised class is not written when a cost is drawn
BOUNDED = [Bounded("c09", "harness/c09.py", descr="option grids incl. chains of using() and parent-after-child behaviour", timeout=900)]

MUTANTS = [
    ("TruncateMixin.using drops an explicit False", H, "            truncate_error = as_bool(truncate_error, param=\"truncate_error\")\n            if truncate_error is not None:\n                subcls.truncate_error = truncate_error", "            truncate_error = as_bool(truncate_error, param=\"truncate_error\")\n            if truncate_error:\n                subcls.truncate_error = truncate_error", "refute", "TruncateMixin"),
    ("_norm_salt: relaxed truncation cuts one too many", H, "    def _truncate_salt(salt, mx):\n        return salt[:mx]", "    def _truncate_salt(salt, mx):\n        return salt[: mx - 1]", "refute", "_norm_salt"),
    ("_norm_salt: minimum compared with <=", H, "        if mn and len(salt) < mn:\n", "        if mn and len(salt) <= mn:\n", "refute", "_norm_salt"),
    ("norm_integer: strict min check dropped", H, "        if relaxed:\n            warn(msg, exc.PasslibHashWarning)\n            value = min\n        else:\n            raise ValueError(msg)\n", "        warn(msg, exc.PasslibHashWarning)\n        value = min\n", "refute"),
    ("norm_integer: relaxed clamps to max+1", H, "            warn(msg, exc.PasslibHashWarning)\n            value = max\n", "            warn(msg, exc.PasslibHashWarning)\n            value = max + 1\n", "refute"),
    ("using: writes the parent class", H, "            subcls.max_desired_rounds = subcls._norm_rounds(\n                max_desired_rounds,", "            cls.max_desired_rounds = subcls.max_desired_rounds = subcls._norm_rounds(\n                max_desired_rounds,", "refute"),
    ("using: default above max accepted", H, "            if max_desired_rounds and default_rounds > max_desired_rounds:\n                raise ValueError(", "            if max_desired_rounds and default_rounds > max_desired_rounds + 1:\n                raise ValueError(", "hold"),  # the default is clipped into the window right after: the property (default inside the window) still holds
    ("using: alias check dropped", H, "        if max_rounds is not None:\n            if max_desired_rounds is not None:\n                raise TypeError(", "        if max_rounds is not None:\n            if False:\n                raise TypeError(", "refute"),
    ("using: clip of default removed", H, "        if subcls.default_rounds is not None:\n            subcls.default_rounds = subcls._clip_to_desired_rounds(\n                subcls.default_rounds\n            )\n", "", "refute"),
]
MUTANTS += c09_frames.MUTANTS

from contracts import bcrypt_sha256_nu as _bnu  # noqa: E402

CONTRACTS.append(_bnu.contract("C09"))
MUTANTS += _bnu.MUTANTS

# ---- a hasher derived with using(truncate_error=True) applies the policy to the bytes it hashes, whatever encoding the call names ----
from contracts import c05 as _c05lm  # noqa: E402

CONTRACTS.append(_c05lm.lmhash_encoding)
REGISTRY = list(globals().get("REGISTRY", [])) + [_c05lm.policy_for_callers]  # _check_truncate_policy is called by its (C05) contract
