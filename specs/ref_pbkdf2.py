"""PBKDF1 / PBKDF2 written from RFC 2898 (with an HMAC written from RFC 2104 on top of hashlib), and the
string formats that wrap them.  Shares nothing with passlib."""
import base64
import hashlib
import struct


def hmac_rfc2104(alg, key, msg):
    h = lambda d: hashlib.new(alg, d).digest()  # noqa: E731
    block = hashlib.new(alg).block_size
    if len(key) > block:
        key = h(key)
    key = key + bytes(block - len(key))
    ipad = bytes(k ^ 0x36 for k in key)
    opad = bytes(k ^ 0x5C for k in key)
    return h(opad + h(ipad + msg))


def pbkdf1(alg, secret, salt, rounds, keylen=None):
    t = hashlib.new(alg, secret + salt).digest()
    for _ in range(rounds - 1):
        t = hashlib.new(alg, t).digest()
    return t if keylen is None else t[:keylen]


def pbkdf2(alg, secret, salt, rounds, keylen):
    hlen = hashlib.new(alg).digest_size
    out = b""
    i = 1
    while len(out) < keylen:
        u = hmac_rfc2104(alg, secret, salt + struct.pack(">I", i))
        t = int.from_bytes(u, "big")
        for _ in range(rounds - 1):
            u = hmac_rfc2104(alg, secret, u)
            t ^= int.from_bytes(u, "big")
        out += t.to_bytes(hlen, "big")
        i += 1
    return out[:keylen]


def ab64(data):
    """'adapted base64': standard base64, '+' -> '.', no padding, no whitespace"""
    return base64.b64encode(data).decode("ascii").rstrip("=").replace("+", ".")


DIGEST_SIZE = {"sha1": 20, "sha256": 32, "sha512": 64}


def pbkdf2_digest(alg, pw, salt, rounds):
    ident = "$pbkdf2$" if alg == "sha1" else "$pbkdf2-%s$" % alg
    return "%s%d$%s$%s" % (ident, rounds, ab64(salt), ab64(pbkdf2(alg, pw, salt, rounds, DIGEST_SIZE[alg])))


def ldap_pbkdf2_digest(alg, pw, salt, rounds):
    ident = "{PBKDF2}" if alg == "sha1" else "{PBKDF2-%s}" % alg.upper()
    return "%s%d$%s$%s" % (ident, rounds, ab64(salt), ab64(pbkdf2(alg, pw, salt, rounds, DIGEST_SIZE[alg])))


def atlassian_pbkdf2_sha1(pw, salt):
    return "{PKCS5S2}" + base64.b64encode(salt + pbkdf2("sha1", pw, salt, 10000, 32)).decode("ascii")


def cta_pbkdf2_sha1(pw, salt, rounds):
    b = lambda d: base64.urlsafe_b64encode(d).decode("ascii")  # noqa: E731
    return "$p5k2$%x$%s$%s" % (rounds, b(salt), b(pbkdf2("sha1", pw, salt, rounds, 20)))


def dlitz_pbkdf2_sha1(pw, salt, rounds):
    """Dwayne Litzenberger's PBKDF2.py crypt(): the whole '$p5k2$rounds$salt' prefix is the PBKDF2 salt,
    rounds in hex and left empty for the default 400; 24 bytes, base64 with './'"""
    cfg = "$p5k2$%s$%s" % ("" if rounds == 400 else "%x" % rounds, salt)
    raw = pbkdf2("sha1", pw, cfg.encode("ascii"), rounds, 24)
    return cfg + "$" + base64.b64encode(raw, b"./").decode("ascii")


def grub_pbkdf2_sha512(pw, salt, rounds):
    return "grub.pbkdf2.sha512.%d.%s.%s" % (rounds, salt.hex().upper(), pbkdf2("sha512", pw, salt, rounds, 64).hex().upper())


def scram(pw_prepped, salt, rounds, algs):
    """algs e.g. ['sha-1','sha-256'] (output sorted); pw already SASLprep'd and UTF-8 encoded"""
    parts = []
    for a in sorted(algs):
        h = a.replace("-", "")
        parts.append("%s=%s" % (a, ab64(pbkdf2(h, pw_prepped, salt, rounds, hashlib.new(h).digest_size))))
    return "$scram$%d$%s$%s" % (rounds, ab64(salt), ",".join(parts))


FSHP_ALG = {0: "sha1", 1: "sha256", 2: "sha384", 3: "sha512"}


def fshp(pw, salt, rounds, variant):
    """Fairly Secure Hashed Password: PBKDF1-like with the roles swapped (salt first), any digest size"""
    alg = FSHP_ALG[variant]
    d = hashlib.new(alg, salt + pw).digest()
    for _ in range(rounds - 1):
        d = hashlib.new(alg, d).digest()
    return "{FSHP%d|%d|%d}%s" % (variant, len(salt), rounds, base64.b64encode(salt + d).decode("ascii"))


def selftest():
    # RFC 6070
    assert pbkdf2("sha1", b"password", b"salt", 1, 20).hex() == "0c60c80f961f0e71f3a9b524af6012062fe037a6"
    assert pbkdf2("sha1", b"password", b"salt", 2, 20).hex() == "ea6c014dc72d6f8ccd1ed92ace1d41f0d8de8957"
    assert pbkdf2("sha1", b"passwordPASSWORDpassword", b"saltSALTsaltSALTsaltSALTsaltSALTsalt", 4096, 25).hex() == "3d2eec4fe41c849b80c8d83662c0e44a8b291a964cf2f07038"
    # RFC 2202 #1
    assert hmac_rfc2104("md5", b"\x0b" * 16, b"Hi There").hex() == "9294727a3638bb1c13f48ef8158bfc9d"
    return True


selftest()
