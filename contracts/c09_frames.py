"""C09, continued: "the hasher it was derived from behaves exactly as before" as a FRAME condition on every using()
override in the repository: the body may write to the fresh subclass only, never to ``cls`` (the parent) nor to module
globals.  The option values are arbitrary; helper validators are free to return anything or raise."""
import z3

from pyvc.contract import Bool, Const, Contract, Int, NoneT, Obj, Opt, Str, Union
from pyvc.values import SDict, SObj, SStr, SStub

H = "passlib/utils/handlers.py"


def _fresh_subclass(it, args, kwargs):
    cls = args[0]
    sub = SObj(it.run.fresh("subclass"), cls=cls.cls, is_class=True, fresh=True)
    sub.parent = cls
    it.run.ghost["sub"] = sub
    return sub


def _any(kind="int"):
    def f(it, a, k):
        n = it.run.fresh("norm")
        return SStr(z3.String(n), "str") if kind == "str" else __import__("pyvc.values", fromlist=["SInt"]).SInt(z3.Int(n))
    return f


def _new(it, args, kwargs):
    inst = SObj(it.run.fresh("instance"), fresh=True, fields={"ident": SStr(z3.String(it.run.fresh("normalised ident")), "str")})
    return inst


G = {"new.*": SStub(_new, "cls(...)", trusted="constructing an instance writes to the instance only"), "super.using": SStub(_fresh_subclass, "parent using()", trusted="returns a fresh subclass of cls"), "warn": SStub(lambda i, a, k: None, "warn")}
OPT = Union(NoneT(), Int(), Str())
TARGETS = [
    # (id, file, qualname, class for cls, params, extra class fields)
    ("HasSalt.using", H, "HasSalt.using", "HasSalt", {"default_salt_size": Opt(Int()), "salt_size": Opt(Int()), "salt": Opt(Str()), "kwds": Const(SDict())},
     {"min_salt_size": Int(lo=0), "max_salt_size": Opt(Int(lo=0)), "default_salt_size": Opt(Int(lo=0)), "name": "handler", "_norm_salt": SStub(_any("str"), "_norm_salt")}),
    ("HasManyIdents.using", H, "HasManyIdents.using", "HasManyIdents", {"default_ident": Opt(Str()), "ident": Opt(Str()), "kwds": Const(SDict())},
     {"name": "handler", "_norm_ident": SStub(_any("str"), "_norm_ident"), "ident_values": ("$2a$", "$2b$"), "ident_aliases": None, "default_ident": "$2b$"}),
    ("ParallelismMixin.using", H, "ParallelismMixin.using", "ParallelismMixin", {"parallelism": OPT, "kwds": Const(SDict())},
     {"name": "handler", "_norm_parallelism": SStub(_any(), "_norm_parallelism"), "parallelism": 1}),
    ("bcrypt_sha256.using", "passlib/handlers/bcrypt.py", "bcrypt_sha256.using", "bcrypt_sha256", {"version": OPT, "kwds": Const(SDict())},
     {"name": "bcrypt_sha256", "_norm_version": SStub(_any(), "_norm_version"), "version": 2, "ident": "$2b$", "default_ident": "$2b$"}),
    ("cisco_type7.using", "passlib/handlers/cisco.py", "cisco_type7.using", "cisco_type7", {"salt": OPT, "kwds": Const(SDict())},
     {"name": "cisco_type7", "_norm_salt": SStub(_any(), "_norm_salt"), "min_salt_value": 0, "max_salt_value": 52}),
    ("bsdi_crypt.using", "passlib/handlers/des_crypt.py", "bsdi_crypt.using", "bsdi_crypt", {"kwds": Const(SDict())},
     {"name": "bsdi_crypt", "default_rounds": Opt(Int()), "min_desired_rounds": Opt(Int()), "max_desired_rounds": Opt(Int())}),
    ("fshp.using", "passlib/handlers/fshp.py", "fshp.using", "fshp", {"variant": OPT, "kwds": Const(SDict())},
     {"name": "fshp", "_norm_variant": SStub(_any(), "_norm_variant"), "default_variant": 1}),
    ("unix_disabled.using", "passlib/handlers/misc.py", "unix_disabled.using", "unix_disabled", {"marker": Opt(Str()), "kwds": Const(SDict())},
     {"name": "unix_disabled", "default_marker": "!", "identify": SStub(lambda i, a, k: __import__("pyvc.values", fromlist=["SBool"]).SBool(z3.Bool(i.run.fresh("identify"))), "identify")}),
    ("scrypt.using", "passlib/handlers/scrypt.py", "scrypt.using", "scrypt", {"block_size": OPT, "kwds": Const(SDict())},
     {"name": "scrypt", "_norm_block_size": SStub(_any(), "_norm_block_size"), "block_size": 8, "default_rounds": 16, "parallelism": 1}),
    ("scram.using", "passlib/handlers/scram.py", "scram.using", "scram", {"default_algs": Const(None), "algs": Const(None), "kwds": Const(SDict())},
     {"name": "scram", "_norm_algs": SStub(lambda i, a, k: ("sha-1",), "_norm_algs"), "default_algs": ("sha-1",)}),
]

CONTRACTS = []
for cid, f, qual, cname, params, fields in TARGETS:
    p = {"cls": Obj(cls=(f, cname), is_class=True, fields=fields)}
    p.update(params)
    CONTRACTS.append(Contract(
        f"{cid}[frame]", f"{f}::{qual}",
        params=p, globals=dict(G),
        modifies=[],
        raises={"ValueError": None, "TypeError": None},
        ensures=[("the result is the fresh subclass; the class it was derived from is never written", lambda it, env: z3.BoolVal(it.resolve(env.lookup("result")) is it.run.ghost.get("sub")))],
        canary=False, max_paths=600, time_budget=60,
        descr="arbitrary option values; validators abstract (free to return anything or raise)",
    ))

MUTANTS = [
    ("fshp.using writes the variant to the parent class", "passlib/handlers/fshp.py", "            subcls.default_variant = cls._norm_variant(variant)", "            cls.default_variant = cls._norm_variant(variant)", "refute", r"fshp.using\[frame"),
    ("HasSalt.using stores the default salt size on the parent", H, "            subcls.default_salt_size = subcls._clip_to_valid_salt_size(", "            cls.default_salt_size = subcls._clip_to_valid_salt_size(", "refute", r"HasSalt.using\[frame"),
    ("unix_disabled.using changes the global hasher's marker", "passlib/handlers/misc.py", "            subcls.default_marker = marker", "            cls.default_marker = marker", "refute", r"unix_disabled.using\[frame"),
]
