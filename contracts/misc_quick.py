"""Small contracts added after the second round of seeded changes (each is listed under the property whose check uses it)."""
import z3

from pyvc.contract import Bool, Bytes, Const, Contract, Int, NoneT, Obj, Opt, Str, Union
from pyvc.runner import Finite
from pyvc.values import SDict, SObj, SStr, SStub

def _enc(it, v, enc):
    """the encoded form of a text value as a spec term (no exception path: spec mode)"""
    old = it.spec
    it.spec = True
    try:
        return it.to_z3(it.m_text_encode(it.resolve(v), enc))
    finally:
        it.spec = old


# ---- sun_md5_crypt.to_string (C07) ------------------------------------------------------------------------------------
SM = "passlib/handlers/sun_md5_crypt.py"
sun_to_string = Contract(
    "sun_md5_crypt.to_string", f"{SM}::sun_md5_crypt.to_string",
    params={"self": Obj(cls=(SM, "sun_md5_crypt"), fields={"rounds": Int(lo=0), "salt": Str(), "checksum": Opt(Str()), "bare_salt": Bool()}), "_withchk": Bool()},
    ensures=[("'$md5' [',rounds=N'] '$' salt ['$' unless the salt is bare] ['$' checksum]: the bare-salt flag is honoured with and without a rounds field",
              "result == ('$md5,rounds=' + str(self.rounds) if self.rounds > 0 else '$md5') + '$' + self.salt + ('' if self.bare_salt else '$') + ('$' + self.checksum if (_withchk and self.checksum is not None) else '')")],
    descr="every rounds >= 0, salt, digest; bare and '$'-terminated salts; config and full strings",
)

# ---- TOTP._adapt_uri_params (C15): the label reaches the constructor as parsed (unquoted once, by the caller) ---------------
T = "passlib/totp.py"


def _aup_setup(it, args):
    n = {"unquote": 0}

    def unq(i, a, k):
        n["unquote"] += 1
        return SStr(z3.String(i.run.fresh("unquoted")), "str")

    it.genv.vars["unquote"] = SStub(unq, "unquote")
    it.run.ghost["n"] = n
    args["cls"].fields["_uri_parse_int"] = SStub(lambda i, a, k: __import__("pyvc.values", fromlist=["SInt"]).SInt(z3.Int(i.run.fresh("int"))), "_uri_parse_int")
    args["cls"].fields["_uri_parse_error"] = SStub(lambda i, a, k: __import__("pyvc.values", fromlist=["SExc"]).SExc(__import__("pyvc.symexec", fromlist=["exc_class"]).exc_class("ValueError")), "_uri_parse_error")
    return None


adapt_uri = Contract(
    "TOTP._adapt_uri_params", f"{T}::TOTP._adapt_uri_params",
    params={"cls": Obj(cls=(T, "TOTP"), is_class=True), "label": Str(), "secret": Str(), "issuer": Opt(Str()), "digits": Const(None), "algorithm": Opt(Str()), "period": Const(None), "extra": Const(SDict())},
    setup=_aup_setup,
    raises={"ValueError": "len(label) == 0 or len(secret) == 0"},
    ensures=[("label, issuer and key reach the constructor exactly as parsed (no second percent-decoding)",
              lambda it, env: z3.And(z3.BoolVal(it.run.ghost["n"]["unquote"] == 0),
                                     it.to_zbool(it.truth(it.cmp_vals("==", it.resolve(env.lookup("result")).items["label"], env.lookup("label")))),
                                     it.to_zbool(it.truth(it.cmp_vals("==", it.resolve(env.lookup("result")).items["key"], env.lookup("secret")))),
                                     it.to_zbool(it.truth(it.cmp_vals("==", it.resolve(env.lookup("result")).items["issuer"], env.lookup("issuer"))))))],
    descr="every label / secret / issuer text",
)

otp_type = Contract(
    "TOTP._check_otp_type", f"{T}::TOTP._check_otp_type",
    params={"cls": Obj(cls=(T, "TOTP"), is_class=True), "type": Str()},
    raises_iff={"ValueError": "type != 'totp' and type != 'hotp'", "NotImplementedError": "type == 'hotp'"},
    ensures=[("only 'totp' is accepted", "result is True and type == 'totp'")],
    descr="every type string: an unknown otp type is refused with a value error, never answered False",
)

# ---- htdigest.hash (C01/C16): user, realm and a text password are all encoded with the context encoding --------------------
DG = "passlib/handlers/digests.py"


def _htd_setup(it, args):
    got = {}

    def md5(i, a, k):
        got["data"] = i.resolve(a[0])
        return SObj("md5 object", fields={"hexdigest": SStub(lambda i2, a2, k2: SStr(z3.String("hexdigest"), "str"), "hexdigest")})

    it.genv.vars["hashlib"] = SObj("hashlib", fields={"md5": SStub(md5, "hashlib.md5")})
    it.run.ghost["got"] = got
    return None


def _htd_post(it, env):
    enc = it.resolve(env.lookup("encoding"))

    def e(name):
        return _enc(it, env.lookup(name), enc)

    want = z3.Concat(e("user"), z3.StringVal(":"), e("realm"), z3.StringVal(":"), e("secret"))
    return it.to_z3(it.run.ghost["got"]["data"]) == want


htdigest_hash = [
    Contract(
        f"htdigest.hash[encoding={enc}]", f"{DG}::htdigest.hash",
        params={"cls": Obj(cls=(DG, "htdigest"), is_class=True), "secret": Str(), "user": Str(), "realm": Str(), "encoding": Const(enc)},
        setup=_htd_setup,
        globals={"uh": SObj("uh", fields={"validate_secret": SStub(lambda i, a, k: None, "validate_secret (C05)")})},
        raises={"UnicodeEncodeError": None, "ValueError": None},
        ensures=[("MD5 input == user:realm:password with ALL THREE text fields encoded with the context encoding", _htd_post)],
        descr="text user / realm / password, the given encoding",
    ) for enc in ("latin-1", "utf-8", "cp1252")
]

# ---- _CommonFile._encode_field with a TEXT name (C16): the 255 limit counts encoded bytes ----------------------------------
A = "passlib/apache.py"
def _ef_replay(enc):
    from pyvc.replay import py_replay
    return py_replay("from passlib.apache import HtpasswdFile", f"r = HtpasswdFile(encoding={enc!r})._encode_field(V['value'], 'user')",
                     f"(isinstance(exc, ValueError) if (len(V['value'].encode({enc!r}, 'replace')) > 255 or any(c in V['value'] for c in ':\\n\\r\\t\\0')) else (exc is None and r == V['value'].encode({enc!r})))",
                     {"value": "user"}, search=lambda seed: [{"value": v} for v in ("\u00e9" * 128, "\u00e9" * 127 + "ab", "a" * 255, "a" * 256, "\u00e9" * 200, "x:y", "ok",
                                                                                         "eve\n", "\neve", "e\nve", "eve\r", "eve\t", "eve\x00", "\n", ":", "eve:")])


encode_field_text = [
    Contract(
        f"_CommonFile._encode_field[text, {enc}]", f"{A}::_CommonFile._encode_field",
        params={"self": Obj(fields={"encoding": enc}), "value": Str(), "param": Const("user")},
        raises={"UnicodeEncodeError": None, "ValueError": lambda it, env, _e=enc: z3.Or(z3.Length(_enc(it, env.lookup("value"), _e)) > 255,
                                                             *[z3.Contains(_enc(it, env.lookup("value"), _e), z3.StringVal(c)) for c in (":", "\n", "\r", "\t", "\x00")])},
        ensures=[("an accepted text name is at most 255 BYTES once encoded, free of separators / control characters, and returned encoded",
                  lambda it, env, _e=enc: z3.And(it.to_z3(env.lookup("result")) == _enc(it, env.lookup("value"), _e), z3.Length(it.to_z3(env.lookup("result"))) <= 255))],
        replay=_ef_replay(enc),
        descr="every text name; multi-byte encodings count bytes",
    ) for enc in ("utf-8", "latin-1")
]

def _sp_setup(it, args):
    seen = {}

    def hash_(i, a, k):
        seen["args"] = [i.resolve(x) for x in a]
        seen["encoding"] = k.get("encoding", "<not passed>")
        return SStr(z3.String("htdigest hash"), "str")

    it.genv.vars["htdigest"] = SObj("htdigest", fields={"hash": SStub(hash_, "htdigest.hash")})
    self = args["self"]
    self.fields["_require_realm"] = SStub(lambda i, a, k: a[0], "_require_realm")
    self.fields["set_hash"] = SStub(lambda i, a, k: True, "set_hash")
    it.run.ghost["seen"] = seen
    return None


htdigest_set_password = Contract(
    "HtdigestFile.set_password", f"{A}::HtdigestFile.set_password",
    params={"self": Obj(fields={"encoding": Str()}), "user": Str(), "realm": Str(), "password": Str()},
    setup=_sp_setup,
    globals={"_UNSET": SObj("_UNSET sentinel")},
    ensures=[("the digest is computed over the fields encoded with the FILE's encoding (the same bytes the record key and check_password use)",
              lambda it, env: z3.And(it.to_zbool(it.truth(it.cmp_vals("==", it.run.ghost["seen"].get("encoding"), it.resolve(env.lookup("self")).fields["encoding"]))),
                                     it.to_zbool(it.truth(it.cmp_vals("==", it.run.ghost["seen"]["args"][0], env.lookup("password")))),
                                     it.to_zbool(it.truth(it.cmp_vals("==", it.run.ghost["seen"]["args"][1], env.lookup("user")))),
                                     it.to_zbool(it.truth(it.cmp_vals("==", it.run.ghost["seen"]["args"][2], env.lookup("realm"))))))],
    descr="any file encoding, user, realm, password",
)

# ---- cisco_type7._cipher (C02): finite and complete over (seed, position) ---------------------------------------------------
CI = "passlib/handlers/cisco.py"


def _cipher_all():
    from pyvc import extract
    from pyvc.concrete import load_class

    cls = load_class(CI, "cisco_type7", ["_cipher"], {})
    key = cls._key
    published = "dsfd;kfoA,.iyewrkldJKDHSUBsgvca69834ncxv9873254k;fg87"  # the Vigenere key of the published algorithm (53 characters)
    fails, cases = [], 0
    if key != published:
        fails.append({"key": "cisco_type7:key", "what": "translation key differs from the published one", "witness": {"key": key}})
    n = 4200
    for seed in range(0, 53):
        for data in (bytes(n), bytes((i * 7 + 3) % 256 for i in range(n))):
            out = cls._cipher(data, seed)
            cases += n
            want = bytes(d ^ ord(published[(seed + i) % 53]) for i, d in enumerate(data))
            if out != want and len(fails) < 5:
                pos = next(i for i in range(min(len(out), n)) if i >= len(out) or out[i] != want[i]) if len(out) == n else -1
                fails.append({"key": f"cisco_type7:cipher:seed{seed}", "what": "keystream differs from key[(seed + position) mod 53]", "witness": {"seed": seed, "position": pos, "length": len(out)}})
    return {"cases": cases, "failures": fails, "samples": [{"seed": 0, "first": list(cls._cipher(b"\\0\\0\\0", 0))}],
            "functions": [{"file": CI, "function": "cisco_type7._cipher", "contract": "finite:cisco-type7-keystream"}]}


cisco_finite = Finite("cisco-type7-keystream", _cipher_all, "cisco_type7._cipher executed for every seed 0..52 and every position < 4200 (two data patterns): byte i is XORed with key[(seed + i) mod 53] of the published 53-character key")


# ---- msdcc2 (Domain Cached Credentials v2): PBKDF2-HMAC-SHA1(MD4(MD4(pw16) + user16), user16, 10240, 16), user lower-cased AS TEXT ----
W = "passlib/handlers/windows.py"
MD4F = z3.Function("MD4", z3.StringSort(), z3.StringSort())
PBK = z3.Function("pbkdf2_hmac", z3.StringSort(), z3.StringSort(), z3.StringSort(), z3.IntSort(), z3.IntSort(), z3.StringSort())


def _dcc2_setup(it, args):
    def md4(i, a, k):
        v = i.to_z3(a[0])
        return SObj(i.run.fresh("md4"), fresh=True, fields={"digest": SStub(lambda i2, a2, k2: SStr(MD4F(v), "bytes"), "digest")})

    it.genv.vars["md4"] = SStub(md4, "md4")
    return None


def _dcc2_import(it, name):
    from pyvc.values import SModule
    return SModule(name, {"pbkdf2_hmac": SStub(lambda i2, a, k: SStr(PBK(i2.to_z3(a[0]), i2.to_z3(a[1]), i2.to_z3(a[2]), i2.to_z3(a[3], "int"), i2.to_z3(a[4], "int")), "bytes"), "pbkdf2_hmac")})


def _dcc2_post(it, env):
    old = it.spec
    it.spec = True
    try:
        pw16 = it.to_z3(it.m_text_encode(env.lookup("secret"), "utf-16-le"))
        low = it.m_text_lower(it.resolve(env.lookup("user")))
        user16 = it.to_z3(it.m_text_encode(low, "utf-16-le"))
    finally:
        it.spec = old
    tmp = MD4F(z3.Concat(MD4F(pw16), user16))
    return it.to_z3(env.lookup("result")) == PBK(z3.StringVal("sha1"), tmp, user16, z3.IntVal(10240), z3.IntVal(16))


def _dcc2_replay():
    from pyvc.replay import py_replay
    ref = r"""
import hashlib
from passlib.handlers.windows import msdcc2
from passlib.crypto._md4 import md4
def ref(pw, user):
    u = user.lower().encode('utf-16-le')
    return hashlib.pbkdf2_hmac('sha1', md4(md4(pw.encode('utf-16-le')).digest() + u).digest(), u, 10240, 16)
"""
    return py_replay(ref, "r = (msdcc2.raw(V['secret'], V['user']), ref(V['secret'], V['user']))", "exc is None and r[0] == r[1]", {"secret": "pw", "user": "Administrator"},
                     search=lambda seed: [{"secret": "pw", "user": u} for u in ("Administrator", "Ärger", "ÉLODIE", "Łukasz", "Алекс", "user")])


msdcc2_raw = Contract(
    "msdcc2.raw", f"{W}::msdcc2.raw",
    params={"cls": Obj(cls=(W, "msdcc2"), is_class=True), "secret": Str(), "user": Str()},
    setup=_dcc2_setup,
    globals={"__import__": _dcc2_import},
    raises={"UnicodeEncodeError": None},
    ensures=[("DCC2 == PBKDF2-HMAC-SHA1(MD4(MD4(utf16(pw)) || utf16(lower(user))), utf16(lower(user)), 10240, 16): the user name is folded as TEXT before it is encoded", _dcc2_post)],
    replay=_dcc2_replay(),
    descr="every text password and user name; MD4 / PBKDF2 / codecs abstract",
)
