#!/bin/bash
# run every registered quick (or $1) check on /repo, regenerating evidence; prints one line per property
tier=${1:-quick}
cd "$(dirname "$0")/.."
for p in C01 C02 C03 C04 C05 C06 C07 C08 C09 C10 C11 C12 C13 C14 C15 C16 C17 C18 C20; do
  s=$(date +%s)
  out=$(./check $p --tier $tier 2>&1); rc=$?
  e=$(date +%s)
  echo "$p rc=$rc $((e-s))s $(echo "$out" | grep -E "^\[$p\]" | cut -c1-220)"
  echo "$out" | grep -E "^(VIOLATION|NOTE undecided|ERROR)" | cut -c1-260 | head -8
done
