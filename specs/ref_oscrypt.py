"""The operating system's crypt(3) as an oracle.  `legacycrypt` only takes str (and encodes UTF-8), so
for arbitrary byte passwords libcrypt is called through ctypes directly (crypt_r when available).
Nothing here touches passlib."""
import ctypes
import ctypes.util

_lib = None
_mode = None


def _load():
    global _lib, _mode
    if _mode is not None:
        return
    name = ctypes.util.find_library("crypt")
    for cand in [name, "libcrypt.so.1", "libcrypt.so.2", "libcrypt.so"]:
        if not cand:
            continue
        try:
            _lib = ctypes.CDLL(cand)
            break
        except OSError:
            continue
    if _lib is not None and hasattr(_lib, "crypt"):
        _lib.crypt.argtypes = [ctypes.c_char_p, ctypes.c_char_p]
        _lib.crypt.restype = ctypes.c_char_p
        _mode = "ctypes"
        return
    try:
        import legacycrypt  # noqa: F401

        _mode = "legacycrypt"
    except Exception:  # noqa: BLE001
        _mode = "none"


def available():
    _load()
    return _mode in ("ctypes", "legacycrypt")


def crypt(pw, setting):
    """pw: bytes without NUL; setting: str.  Returns str, or None when crypt() fails / rejects."""
    _load()
    if isinstance(pw, str):
        pw = pw.encode("utf-8")
    if b"\0" in pw:
        return None
    if _mode == "ctypes":
        r = _lib.crypt(pw, setting.encode("ascii"))
        if not r:
            return None
        r = r.decode("ascii", "replace")
    elif _mode == "legacycrypt":
        import legacycrypt

        try:
            r = legacycrypt.crypt(pw.decode("utf-8"), setting)
        except (UnicodeDecodeError, OSError):
            return None
    else:
        return None
    if not r or r.startswith("*") or r.startswith("!"):
        return None
    return r


# known answers used to decide which schemes the host's crypt() really implements
PROBES = {
    "des_crypt": ("password", "ab", "abJnggxhB/yWI"),
    "bsdi_crypt": ("password", "_J9..abcd", None),
    "md5_crypt": ("password", "$1$5pZSV9va$", "$1$5pZSV9va$azfrPr6af3Fc7dLblQXVa0"),
    "sha1_crypt": ("password", "$sha1$19703$iVdJqfSE$", "$sha1$19703$iVdJqfSE$v4qYKl1zqYThwpjJAoKX6UvlHq/a"),
    "sha256_crypt": ("Hello world!", "$5$saltstring", "$5$saltstring$5B8vYYiY.CVt1RlTTf8KbXBH3hsxY/GNooZaBBGWEc5"),
    "sha512_crypt": ("Hello world!", "$6$saltstring", "$6$saltstring$svn8UoSVapNtMuq1ukKS4tPQd8iKwSMHWjl/O817G3uBnIFNjnQJuesI68u4OTLiBFdcbYEdFCoEOfaS35inz1"),
    "bcrypt": ("", "$2a$06$DCq7YPn5Rq63x1Lad4cll.", "$2a$06$DCq7YPn5Rq63x1Lad4cll.TV4S6ytwfsfvkgY8jIucDrjc8deX1s."),
    "sun_md5_crypt": ("passwd", "$md5$RPgLF6IJ", "$md5$RPgLF6IJ$WTvAlUJ7MqH5xak2FMEwS/"),
    "bsd_nthash": ("password", "$3$$", "$3$$8846f7eaee8fb117ad06bdd830b7586c"),
}


def supported():
    out = {}
    for name, (pw, setting, want) in PROBES.items():
        r = crypt(pw.encode(), setting)
        out[name] = r is not None and (want is None or r == want) and r.startswith(setting[:3])
    return out
