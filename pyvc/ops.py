"""pyvc.ops -- expression evaluation and operator semantics (mixin of Interp)."""

from __future__ import annotations

import ast

import z3

from . import extract
from .symexec import ClassRef, Env, PathCut, RaiseSig, ReturnSig, exc_class
from .values import (
    IntSeqSort,
    SAbsIter,
    SBool,
    SClosure,
    SDec,
    SDict,
    SExc,
    SExcClass,
    SInt,
    SList,
    SMap,
    SModule,
    SObj,
    SOpaque,
    SSeq,
    SSet,
    SStr,
    SStub,
    SType,
    SUndef,
    SUnion,
    Unsupported,
    pytype_name,
)

_CMP = {"Lt": "<", "LtE": "<=", "Gt": ">", "GtE": ">=", "Eq": "==", "NotEq": "!="}


# values fixed by the environment the checks assume (listed in every evidence file)
_ENV_CONSTANTS = {"MAX_PASSWORD_SIZE": 4096}
_MODULE_ALIASES = {"exc": "passlib/exc.py", "uh": "passlib/utils/handlers.py", "ifc": "passlib/ifc.py"}


def _module_file(dotted):
    import os

    base = dotted.replace(".", "/")
    for cand in (base + ".py", base + "/__init__.py"):
        if os.path.exists(os.path.join(extract.REPO, cand)):
            return cand
    return None


_MUTATES = {}


def _module_mutates(relpath, name):
    """does the module's own code write into the module-level container `name` (item assignment / deletion, in-place methods,
    augmented assignment, ``global name`` rebinding)?"""
    key = (extract.REPO, relpath, name)
    if key in _MUTATES:
        return _MUTATES[key]
    tree, _ = extract.module_ast(relpath)
    writes = {"append", "extend", "insert", "add", "update", "clear", "pop", "popitem", "setdefault", "remove", "discard", "sort", "reverse", "__setitem__", "__delitem__"}
    hit = False
    for node in ast.walk(tree):
        if isinstance(node, (ast.Assign, ast.AugAssign, ast.AnnAssign, ast.Delete)):
            targets = node.targets if isinstance(node, (ast.Assign, ast.Delete)) else [node.target]
            for t in targets:
                if isinstance(t, ast.Subscript) and isinstance(t.value, ast.Name) and t.value.id == name:
                    hit = True
                if isinstance(node, ast.AugAssign) and isinstance(t, ast.Name) and t.id == name:
                    hit = True
        elif isinstance(node, ast.Call) and isinstance(node.func, ast.Attribute) and isinstance(node.func.value, ast.Name) and node.func.value.id == name and node.func.attr in writes:
            hit = True
        elif isinstance(node, ast.Global) and name in node.names:
            hit = True
        if hit:
            break
    _MUTATES[key] = hit
    return hit


def _import_source(relpath, name):
    """('name', file, original name) / ('module', file, None) if ``name`` is bound by an import of a repo module"""
    tree, _ = extract.module_ast(relpath)
    pkg = relpath.rsplit("/", 1)[0].replace("/", ".")
    for st in ast.walk(tree):
        if isinstance(st, ast.ImportFrom):
            mod = st.module or ""
            if st.level:
                parts = pkg.split(".")
                parts = parts[: len(parts) - (st.level - 1)]
                mod = ".".join(parts + ([mod] if mod else []))
            for a in st.names:
                if (a.asname or a.name) == name:
                    sub = _module_file(mod + "." + a.name)
                    if sub is not None:
                        return ("module", sub, None)
                    f = _module_file(mod)
                    if f is not None:
                        return ("name", f, a.name)
        elif isinstance(st, ast.Import):
            for a in st.names:
                if (a.asname or a.name.split(".")[0]) == name and a.asname:
                    f = _module_file(a.name)
                    if f is not None:
                        return ("module", f, None)
    return None


def _depth_guard(it):
    it._import_depth = getattr(it, "_import_depth", 0)
    return it._import_depth < 8


def _pow2_exp(m):
    """k if m == 2**k else None"""
    if isinstance(m, int) and m > 0 and m & (m - 1) == 0:
        return m.bit_length() - 1
    return None


def _seq_units(e):
    """elements of a Seq(Int) term that is a concatenation of unit sequences, else None"""
    out = []
    stack = [e]
    while stack:
        t = stack.pop()
        if not z3.is_app(t):
            return None
        k = t.decl().kind()
        if k == z3.Z3_OP_SEQ_CONCAT:
            stack.extend(reversed(t.children()))
        elif k == z3.Z3_OP_SEQ_UNIT:
            out.append(t.arg(0))
        elif k == z3.Z3_OP_SEQ_EMPTY:
            continue
        else:
            return None
    return out


class OpsMixin:
    # ------------------------------------------------------------------ conversions
    def mkint(self, c):
        return z3.IntVal(c) if self.bv is None else z3.BitVecVal(c, self.bv)

    def to_z3(self, v, sort=None):
        v = self.resolve(v)
        if isinstance(v, bool):
            if sort == "int":
                return self.mkint(int(v))
            return z3.BoolVal(v)
        if isinstance(v, int):
            return self.mkint(v)
        if isinstance(v, SInt):
            return v.e
        if isinstance(v, SBool):
            if sort == "int":
                return z3.If(v.e, self.mkint(1), self.mkint(0))
            return v.e
        if isinstance(v, str):
            return z3.StringVal(v)
        if isinstance(v, bytes):
            if sort == "intseq":
                return self.intseq_of(list(v))
            return z3.StringVal(v.decode("latin-1"))
        if isinstance(v, (SStr, SSeq)):
            return v.e
        if isinstance(v, (tuple, SList)) and sort == "intseq":
            items = v if isinstance(v, tuple) else v.items
            return self.intseq_of(items)
        if isinstance(v, z3.ExprRef):
            return v
        raise Unsupported(f"cannot convert {v!r} to z3")

    def intseq_of(self, items):
        acc = z3.Empty(IntSeqSort)
        parts = [z3.Unit(self.to_z3(x, "int")) for x in items]
        if not parts:
            return acc
        if len(parts) == 1:
            return parts[0]
        return z3.Concat(*parts)

    def from_z3(self, e, sort):
        if sort == "int":
            return self.wrap_int(e)
        if sort == "bool":
            return SBool(e)
        if sort in ("str", "bytes"):
            return SStr(e, sort)
        if sort == "intseq":
            return SSeq(e, "list")
        raise Unsupported(f"sort {sort}")

    def wrap_int(self, e):
        e = z3.simplify(e)
        if z3.is_int_value(e):
            return e.as_long()
        if z3.is_bv_value(e):
            return e.as_signed_long()
        return SInt(e)

    def wrap_bool(self, e):
        if isinstance(e, bool):
            return e
        e = z3.simplify(e)
        if z3.is_true(e):
            return True
        if z3.is_false(e):
            return False
        return SBool(e)

    def wrap_str(self, e, kind):
        e = z3.simplify(e)
        if z3.is_string_value(e):
            s = e.as_string()
            s = _unescape_z3(s)
            return s if kind == "str" else s.encode("latin-1")
        return SStr(e, kind)

    def unit_of(self, v, kind):
        v = self.resolve(v)
        if kind == "str":
            return self.to_z3(v)
        return z3.Unit(self.to_z3(v, "int"))

    # ------------------------------------------------------------------ unions
    def resolve(self, v):
        while isinstance(v, SUnion):
            if v.name in self.run.resolved:
                v = v.alts[self.run.resolved[v.name]][1]
                continue
            k = self.run.fork([v.tag == i for i in range(len(v.alts))], label=f"type of {v.name}")
            self.run.resolved[v.name] = k
            v = v.alts[k][1]
        return v

    def union_is(self, v, pred):
        """z3 Bool: the union's current alternative satisfies pred(value)"""
        if v.name in self.run.resolved:
            return pred(v.alts[self.run.resolved[v.name]][1])
        hits = [v.tag == i for i, (_, val) in enumerate(v.alts) if pred(val)]
        if not hits:
            return False
        if len(hits) == len(v.alts):
            return True
        return z3.Or(*hits) if len(hits) > 1 else hits[0]

    # ------------------------------------------------------------------ truth
    def truth(self, v):
        if isinstance(v, SUnion):
            v = self.resolve(v)
        if isinstance(v, SUndef):
            return z3.Bool(self.run.fresh("undefined"))
        if v is None:
            return False
        if isinstance(v, (bool, int, float, str, bytes, tuple)):
            return bool(v)
        if isinstance(v, SBool):
            return v.e
        if isinstance(v, SInt):
            return v.e != self.mkint(0)
        if isinstance(v, SDec):
            return True
        if isinstance(v, (SStr, SSeq)):
            return z3.Length(v.e) > 0
        if isinstance(v, SList):
            return bool(v.items)
        if isinstance(v, (SDict, SSet)):
            return bool(v.items)
        if isinstance(v, (SObj, SClosure, SStub, SExcClass, SType, SModule)):
            return True
        if isinstance(v, z3.BoolRef):
            return v
        raise Unsupported(f"truth value of {v!r}")

    def cmp_z3(self, op, a, b):
        if isinstance(a, int) and not isinstance(a, bool):
            a = self.mkint(a)
        if isinstance(b, int) and not isinstance(b, bool):
            b = self.mkint(b)
        return {"<": a < b, "<=": a <= b, ">": a > b, ">=": a >= b, "==": a == b, "!=": a != b}[op]

    # ------------------------------------------------------------------ eval
    def eval(self, node, env):
        m = getattr(self, "ev_" + type(node).__name__, None)
        if m is None:
            raise Unsupported(f"expression {type(node).__name__} at line {getattr(node, 'lineno', self.lineno)}")
        if self.spec and isinstance(node, (ast.Call, ast.Subscript, ast.BinOp, ast.Attribute, ast.Compare)) and not self.call_depth:
            try:
                return m(node, env)
            except RaiseSig:
                return SUndef()
        return m(node, env)

    def ev_Constant(self, node, env):
        return node.value

    def ev_Name(self, node, env):
        name = node.id
        try:
            return env.lookup(name)
        except KeyError:
            pass
        return self.global_name(name)

    def global_name(self, name):
        if name in self.c.specs:
            return SStub(self.c.specs[name], name)
        if name in ("True", "False", "None"):
            return {"True": True, "False": False, "None": None}[name]
        b = self.builtin_value(name)
        if b is not None:
            return b
        # module-level function or class or constant of the target's file
        relpath = self.func_stack[-1][1].relpath if self.func_stack and self.func_stack[-1][1] else self.info.relpath
        val = self.module_level(relpath, name)
        if val is not None:
            return val[0]
        try:
            return exc_class(name)
        except Unsupported:
            pass
        if name in _MODULE_ALIASES:
            return SModule(name, {"__file__": _MODULE_ALIASES[name]})
        if name in _ENV_CONSTANTS:
            return _ENV_CONSTANTS[name]
        raise Unsupported(f"unresolved name '{name}' (line {self.lineno})")

    def module_level(self, relpath, name):
        """(value,) for a module-level def/class/constant of relpath, else None"""
        tree, _ = extract.module_ast(relpath)
        from .extract import _walk_body

        node = _walk_body(tree.body, name)
        if isinstance(node, ast.FunctionDef) and relpath.endswith("passlib/exc.py"):
            # exception factory (``def XError(...): return SomeError(...)``): its class, not its body
            try:
                return (exc_class(name),)
            except Unsupported:
                pass
        if isinstance(node, ast.FunctionDef):
            target = f"{relpath}::{name}"
            if target in self.registry and target != self.c.target and target not in self.c.inline and name not in self.c.inline:
                return (self.contract_callee(self.registry[target]),)
            info = extract.find(target)
            return (SClosure(node, self.genv, info=info, name=name),)
        if isinstance(node, ast.ClassDef):
            try:
                ec = exc_class(name)
                return (ec,)
            except Unsupported:
                pass
            cref = ClassRef.get(relpath, name)
            return (SObj(name, cls=cref, is_class=True),)
        try:
            const = extract.module_constant(relpath, name)
            if isinstance(const, (dict, list, set)) and _module_mutates(relpath, name):
                # mutable module state (a cache, a registry): its content at the time of the call is whatever earlier calls
                # left there, NOT the literal it was initialised with -- no model, the contract is undecided
                raise Unsupported(f"mutable module-level state '{name}' (written by the module's own code)")
            return (self.lift_const(const),)
        except (extract.ExtractError, extract.NotConstant):
            # ``ALIAS = OTHER_NAME`` where OTHER_NAME is imported: follow the alias
            for st in tree.body:
                if isinstance(st, ast.Assign) and isinstance(st.value, ast.Name) and any(isinstance(t, ast.Name) and t.id == name for t in st.targets) and st.value.id != name:
                    if _depth_guard(self):
                        return self.module_level(relpath, st.value.id)
        # a name imported from another repository module: follow the import (closed world: /repo only)
        src = _import_source(relpath, name)
        if src is not None:
            kind, target_file, orig = src
            if kind == "module":
                return (SModule(name, {"__file__": target_file}),)
            if _depth_guard(self):
                return self.module_level(target_file, orig)
        return None

    def lift_const(self, v):
        if isinstance(v, list):
            return SList([self.lift_const(x) for x in v])
        if isinstance(v, dict):
            return SDict({k: self.lift_const(x) for k, x in v.items()})
        if isinstance(v, (set, frozenset)):
            return SSet(sorted(v, key=repr))
        if isinstance(v, tuple):
            return tuple(self.lift_const(x) for x in v)
        if isinstance(v, type):
            return SType(v.__name__)
        return v

    def ev_Tuple(self, node, env):
        out = []
        for e in node.elts:
            if isinstance(e, ast.Starred):
                out.extend(self.static_items_req(self.eval(e.value, env)))
            else:
                out.append(self.eval(e, env))
        return tuple(out)

    def ev_List(self, node, env):
        return SList(self.ev_Tuple(node, env))

    def ev_Set(self, node, env):
        return SSet(self.ev_Tuple(node, env))

    def ev_Dict(self, node, env):
        d = {}
        for k, v in zip(node.keys, node.values):
            if k is None:
                sub = self.resolve(self.eval(v, env))
                if not isinstance(sub, SDict):
                    raise Unsupported("** of non-dict")
                d.update(sub.items)
            else:
                kk = self.eval(k, env)
                if kk is not None and not isinstance(kk, (str, int, bytes, tuple)):
                    raise Unsupported("symbolic dict key in literal")
                d[kk] = self.eval(v, env)
        return SDict(d)

    def ev_JoinedStr(self, node, env):
        parts = []
        symbolic = False
        for v in node.values:
            if isinstance(v, ast.Constant):
                parts.append(v.value)
            else:
                val = self.resolve(self.eval(v.value, env))
                spec = None
                if v.format_spec is not None:
                    fs = v.format_spec
                    if isinstance(fs, ast.JoinedStr) and len(fs.values) == 1 and isinstance(fs.values[0], ast.Constant):
                        spec = fs.values[0].value
                    else:
                        return SOpaque("f-string")
                if v.conversion == 114 or spec not in (None, "", "d", "s"):  # !r or an unmodelled format spec
                    return SOpaque("f-string")
                if spec == "d" and not isinstance(val, (int, SInt)):
                    raise RaiseSig(SExc(exc_class("ValueError")), self.lineno)
                if spec == "s" and isinstance(val, (int, SInt)) and not isinstance(val, bool):
                    raise RaiseSig(SExc(exc_class("ValueError")), self.lineno)
                if isinstance(val, str):
                    parts.append(val)
                elif isinstance(val, SStr) and val.kind == "str":
                    parts.append(val)
                    symbolic = True
                elif isinstance(val, int) and not isinstance(val, bool):
                    parts.append(str(val))
                elif isinstance(val, SInt):
                    parts.append(self.int_to_str(val))
                    symbolic = True
                else:
                    return SOpaque("f-string")
        if not symbolic:
            return "".join(parts)
        return self.wrap_str(z3.Concat(*[self.to_z3(p) for p in parts]) if len(parts) > 1 else self.to_z3(parts[0]), "str")

    def ev_UnaryOp(self, node, env):
        v = self.resolve(self.eval(node.operand, env))
        op = type(node.op).__name__
        if op == "Not":
            t = self.truth(v)
            return (not t) if isinstance(t, bool) else self.wrap_bool(z3.Not(t))
        if isinstance(v, (int, float)) and not isinstance(v, bool) or isinstance(v, bool):
            return {"USub": lambda x: -x, "UAdd": lambda x: +x, "Invert": lambda x: ~x}[op](v)
        if isinstance(v, SInt):
            if op == "USub":
                return self.wrap_int(-v.e)
            if op == "UAdd":
                return v
            if op == "Invert":
                return self.wrap_int(~v.e if self.bv else -v.e - 1)
        raise Unsupported(f"unary {op} on {v!r}")

    def ev_BoolOp(self, node, env):
        is_and = isinstance(node.op, ast.And)
        if self.spec:
            vals = [self.truth(self.eval(v, env)) for v in node.values]
            if all(isinstance(x, bool) for x in vals):
                return all(vals) if is_and else any(vals)
            zs = [z3.BoolVal(x) if isinstance(x, bool) else x for x in vals]
            return self.wrap_bool(z3.And(*zs) if is_and else z3.Or(*zs))
        v = None
        for k, sub in enumerate(node.values):
            v = self.eval(sub, env)
            if k == len(node.values) - 1:
                return v
            t = self.run.branch(self.truth(v))
            if is_and and not t:
                return v
            if not is_and and t:
                return v
        return v

    def ev_IfExp(self, node, env):
        if self.spec:
            c = self.truth(self.eval(node.test, env))
            if isinstance(c, bool):
                return self.eval(node.body if c else node.orelse, env)
            a = self.eval(node.body, env)
            b = self.eval(node.orelse, env)
            if not isinstance(a, SUnion) and not isinstance(b, SUnion) and a is not None and b is not None:
                try:
                    return self.ite(c, a, b)
                except Unsupported:
                    pass
            # not expressible as one term: case split on the condition (sound and complete)
            return a if self.run.branch(c) else b
        if self.branch_on(node.test, env):
            return self.eval(node.body, env)
        return self.eval(node.orelse, env)

    def ite(self, c, a, b):
        if isinstance(a, (SBool, bool)) and isinstance(b, (SBool, bool)):
            return self.wrap_bool(z3.If(c, self.to_z3(a), self.to_z3(b)))
        if isinstance(a, (SInt, int)) and isinstance(b, (SInt, int)):
            return self.wrap_int(z3.If(c, self.to_z3(a, "int"), self.to_z3(b, "int")))
        if isinstance(a, (SStr, str, bytes)) and isinstance(b, (SStr, str, bytes)):
            kind = a.kind if isinstance(a, SStr) else ("str" if isinstance(a, str) else "bytes")
            return self.wrap_str(z3.If(c, self.to_z3(a), self.to_z3(b)), kind)
        if isinstance(a, SSeq) or isinstance(b, SSeq):
            return SSeq(z3.If(c, self.to_z3(a, "intseq"), self.to_z3(b, "intseq")), getattr(a, "kind", "list"))
        raise Unsupported("if-expression over these types in a spec")

    def ev_Compare(self, node, env):
        left = self.eval(node.left, env)
        result = None
        for op, rnode in zip(node.ops, node.comparators):
            right = self.eval(rnode, env)
            r = self.compare(type(op).__name__, left, right)
            if result is None:
                result = r
            else:
                a, b = self.truth(result), self.truth(r)
                if isinstance(a, bool) and isinstance(b, bool):
                    result = a and b
                else:
                    if not self.spec and len(node.ops) > 1:
                        pass
                    result = self.wrap_bool(z3.And(self.to_z3(a) if not isinstance(a, bool) else z3.BoolVal(a), self.to_z3(b) if not isinstance(b, bool) else z3.BoolVal(b)))
            left = right
        return result

    def ev_BinOp(self, node, env):
        a = self.eval(node.left, env)
        b = self.eval(node.right, env)
        return self.binop(type(node.op).__name__, a, b)

    def ev_Lambda(self, node, env):
        fn = ast.FunctionDef(name="<lambda>", args=node.args, body=[ast.Return(value=node.body, lineno=node.lineno, col_offset=0)], decorator_list=[], lineno=node.lineno, col_offset=0)
        return SClosure(fn, env, name="<lambda>")

    def ev_Attribute(self, node, env):
        obj = self.eval(node.value, env)
        return self.getattr_value(obj, node.attr)

    def ev_Subscript(self, node, env):
        obj = self.eval(node.value, env)
        idx = self.eval_index(node.slice, env)
        return self.getitem(obj, idx)

    def eval_index(self, sl, env):
        if isinstance(sl, ast.Slice):
            return slice(
                self.eval(sl.lower, env) if sl.lower is not None else None,
                self.eval(sl.upper, env) if sl.upper is not None else None,
                self.eval(sl.step, env) if sl.step is not None else None,
            )
        return self.eval(sl, env)

    def ev_Starred(self, node, env):
        raise Unsupported("starred expression")

    def ev_Yield(self, node, env):
        if not self.collectors:
            raise Unsupported("yield outside a consumed generator")
        v = self.eval(node.value, env) if node.value is not None else None
        yr = self.c.yield_range
        if yr is not None and not self.spec:
            rv = self.resolve(v)
            if isinstance(rv, (int, SInt)):
                z = self.to_z3(rv, "int")
                self.run.oblige("safety", z3.And(self.cmp_z3(">=", z, yr[0]), self.cmp_z3("<", z, yr[1])), f"yielded value in [{yr[0]}, {yr[1]}) (consumer is bytes())", node.lineno)
        self.collectors[-1].add(self, v)
        return None

    def ev_ListComp(self, node, env):
        return SList(self.comprehension(node.elt, node.generators, env))

    def ev_GeneratorExp(self, node, env):
        return SList(self.comprehension(node.elt, node.generators, env))

    def ev_SetComp(self, node, env):
        return SSet(self.comprehension(node.elt, node.generators, env))

    def ev_DictComp(self, node, env):
        pairs = self.comprehension(ast.Tuple(elts=[node.key, node.value], ctx=ast.Load()), node.generators, env)
        return SDict({k: v for k, v in pairs})

    def comprehension(self, elt, gens, env):
        out = []

        def rec(k, e):
            if k == len(gens):
                out.append(self.eval(elt, e))
                return
            g = gens[k]
            items = self.static_items_req(self.eval(g.iter, e))
            for x in items:
                e2 = Env(e, {})
                self.assign(g.target, x, e2)
                if all(self.run.branch(self.truth(self.eval(c, e2))) for c in g.ifs):
                    rec(k + 1, e2)

        rec(0, env)
        return out

    # ------------------------------------------------------------------ sequences
    def static_items(self, v):
        """python list of the items if the iterable has static length, else None"""
        v = self.resolve(v)
        if isinstance(v, SDict) and getattr(v, "sym_items", None):
            raise Unsupported("iteration over a dict that received symbolic keys")
        if isinstance(v, (tuple, list)):
            return list(v)
        if isinstance(v, SList):
            return list(v.items)
        if isinstance(v, (str,)):
            return list(v)
        if isinstance(v, bytes):
            return list(v)
        if isinstance(v, range):
            return list(v)
        if isinstance(v, SDict):
            return list(v.items.keys())
        if isinstance(v, SSet):
            return list(v.items)
        if isinstance(v, SSeq):
            # a sequence literally built from units (bytes(<generator over a static iterable>)): its items are static
            units = _seq_units(v.e)
            if units is not None:
                return [self.wrap_int(u) for u in units]
        return None

    def static_items_req(self, v):
        items = self.static_items(v)
        if items is None:
            raise Unsupported(f"iteration over symbolic-length {v!r}")
        return items

    def seq_access(self, it):
        """(length value, getter(index value)) for a symbolic iterable"""
        if isinstance(it, SSeq):
            n = self.wrap_int(z3.Length(it.e))
            return n, lambda i: self.wrap_int(self.nth(it.e, self.to_z3(i, "int")))
        if isinstance(it, SStr):
            n = self.wrap_int(z3.Length(it.e))
            if it.kind == "bytes":
                return n, lambda i: self.wrap_int(z3.StrToCode(z3.SubString(it.e, self.to_z3(i, "int"), 1)))
            return n, lambda i: self.wrap_str(z3.SubString(it.e, self.to_z3(i, "int"), 1), "str")
        if isinstance(it, SSymRange):
            return it.n, lambda i: self.binop("Add", it.start, i)
        if isinstance(it, SAbsIter):
            return it.n, it.get
        raise Unsupported(f"symbolic iteration over {it!r}")

    def nth(self, seq, i):
        return z3.SeqRef(z3.Z3_mk_seq_nth(seq.ctx_ref(), seq.as_ast(), i.as_ast()), seq.ctx) if False else seq[i]

    def unpack(self, v, n):
        v = self.resolve(v)
        items = self.static_items(v)
        if items is None:
            if isinstance(v, (SStr, SSeq)):
                ln = z3.Length(v.e)
                self.may_raise("ValueError", ln == n)
                _, get = self.seq_access(v)
                return [get(k) for k in range(n)]
            raise Unsupported(f"unpack of {v!r}")
        if len(items) != n:
            raise RaiseSig(SExc(exc_class("ValueError")), self.lineno)
        return items

    # ------------------------------------------------------------------ raising
    def may_raise(self, exc_name, ok_cond):
        """continue when ok_cond holds, else raise exc_name (forks when undetermined)"""
        if self.spec:
            return
        ok = self.run.branch(ok_cond)
        if not ok:
            raise RaiseSig(SExc(exc_class(exc_name)), self.lineno)

    # ------------------------------------------------------------------ binop
    def binop(self, op, a, b):
        a = self.resolve(a)
        b = self.resolve(b)
        if isinstance(a, SUndef) or isinstance(b, SUndef):
            return SUndef()
        if isinstance(a, SOpaque) or isinstance(b, SOpaque):
            return SOpaque("binop")
        if self.spec and (a is None or b is None):
            return SInt(z3.Int(self.run.fresh("undefined")) if self.bv is None else z3.BitVec(self.run.fresh("undefined"), self.bv))
        conc_a = isinstance(a, (int, float, str, bytes, tuple)) or a is None
        conc_b = isinstance(b, (int, float, str, bytes, tuple)) or b is None
        if conc_a and conc_b and not (isinstance(a, tuple) or isinstance(b, tuple)):
            return self.concrete_binop(op, a, b)
        if isinstance(a, (int, SInt, SBool)) and isinstance(b, (int, SInt, SBool)):
            return self.int_binop(op, a, b)
        if isinstance(a, (str, bytes, SStr)) and isinstance(b, (str, bytes, SStr)):
            if op == "Add":
                ka, kb = self.kind_of(a), self.kind_of(b)
                if ka != kb:
                    raise RaiseSig(SExc(exc_class("TypeError")), self.lineno)
                return self.wrap_str(z3.Concat(self.to_z3(a), self.to_z3(b)), ka)
            if op == "Mod":
                return self.str_format(a, b)
        if isinstance(a, (str, bytes, SStr)) and op == "Mod":
            return self.str_format(a, b)
        if isinstance(a, (str, bytes, SStr)) and isinstance(b, (int, SInt)) and op == "Mult":
            return self.str_repeat(a, b)
        if isinstance(a, (tuple, SList)) and isinstance(b, (tuple, SList)) and op == "Add":
            ia = list(a) if isinstance(a, tuple) else a.items
            ib = list(b) if isinstance(b, tuple) else b.items
            return tuple(ia + ib) if isinstance(a, tuple) else SList(ia + ib)
        if isinstance(a, (tuple, SList)) and isinstance(b, int) and op == "Mult":
            ia = list(a) if isinstance(a, tuple) else a.items
            return tuple(ia * b) if isinstance(a, tuple) else SList(ia * b)
        if isinstance(a, SSeq) or isinstance(b, SSeq):
            if op == "Add":
                kind = a.kind if isinstance(a, SSeq) else b.kind
                return SSeq(z3.Concat(self.to_z3(a, "intseq"), self.to_z3(b, "intseq")), kind)
        if self.spec and (a is None or b is None):
            return SInt(z3.Int(self.run.fresh("undefined")) if self.bv is None else z3.BitVec(self.run.fresh("undefined"), self.bv))
        raise Unsupported(f"binary {op} on {pytype_name(a)} and {pytype_name(b)} (line {self.lineno})")

    def kind_of(self, v):
        if isinstance(v, str):
            return "str"
        if isinstance(v, bytes):
            return "bytes"
        return v.kind

    def concrete_binop(self, op, a, b):
        import operator as o

        table = {
            "Add": o.add, "Sub": o.sub, "Mult": o.mul, "FloorDiv": o.floordiv, "Mod": o.mod, "Pow": o.pow,
            "LShift": o.lshift, "RShift": o.rshift, "BitAnd": o.and_, "BitOr": o.or_, "BitXor": o.xor, "Div": o.truediv,
        }
        try:
            return table[op](a, b)
        except ZeroDivisionError:
            raise RaiseSig(SExc(exc_class("ZeroDivisionError")), self.lineno)
        except TypeError:
            raise RaiseSig(SExc(exc_class("TypeError")), self.lineno)
        except ValueError:
            raise RaiseSig(SExc(exc_class("ValueError")), self.lineno)

    def int_binop(self, op, a, b):
        if self.bv is not None:
            return self.bv_binop(op, a, b)
        za, zb = self.to_z3(a, "int"), self.to_z3(b, "int")
        cb = b if isinstance(b, int) else None
        ca = a if isinstance(a, int) else None
        if op == "Add":
            return self.wrap_int(za + zb)
        if op == "Sub":
            return self.wrap_int(za - zb)
        if op == "Mult":
            return self.wrap_int(za * zb)
        if op in ("FloorDiv", "Mod"):
            if cb is not None and cb > 0:
                return self.wrap_int(za / zb if op == "FloorDiv" else za % zb)
            self.may_raise("ZeroDivisionError", zb != 0)
            q = z3.If(zb > 0, za / zb, (-za) / (-zb))
            if op == "FloorDiv":
                return self.wrap_int(q)
            return self.wrap_int(za - zb * q)
        if op == "LShift":
            if cb is not None and cb >= 0:
                return self.wrap_int(za * (1 << cb))
            return self.wrap_int(za * self.pow2(zb))
        if op == "RShift":
            if cb is not None and cb >= 0:
                return self.wrap_int(za / (1 << cb))
            return self.wrap_int(za / self.pow2(zb))
        if op == "BitAnd":
            mask, other = (cb, za) if cb is not None else (ca, zb)
            if mask is not None and mask >= 0:
                if mask == 0:
                    return 0
                low = (mask & -mask).bit_length() - 1
                width = _pow2_exp((mask >> low) + 1)
                if width is not None:
                    if low == 0:
                        return self.wrap_int(other % (1 << width))
                    return self.wrap_int(((other / (1 << low)) % (1 << width)) * (1 << low))
            if mask is not None and mask < 0 and _pow2_exp(-mask) is not None:
                return self.wrap_int(other - other % (-mask))  # x & -(2^k) clears the k low bits
            raise Unsupported(f"& with non-contiguous or symbolic mask in math-int mode (line {self.lineno})")
        hook = self.c.globals.get("op." + op) if op in ("BitOr", "BitXor", "BitAnd") else None
        if hook is not None and ca is None and cb is None:
            # the contract keeps this bit operation abstract (an uninterpreted function used by code and spec alike)
            return hook(self, a, b)
        if op in ("BitOr", "BitXor") and not (cb is not None and _pow2_exp(cb) is not None) and not (ca is not None and _pow2_exp(ca) is not None):
            # x | y == x ^ y == x + y when the operands occupy disjoint bit ranges: find k with
            # (hi mod 2^k == 0 and 0 <= lo < 2^k) VALID under the path condition (checked by the solver)
            for hi, lo in ((za, zb), (zb, za)):
                for k in range(1, 65):
                    cond = z3.And(hi % (1 << k) == 0, lo >= 0, lo < (1 << k), hi >= 0)
                    if not self.run.feasible(z3.Not(cond)):
                        return self.wrap_int(hi + lo)
            # general case: both operands provably in [0, 2^K) for a small K -> bitwise definition
            for K in (8, 16, 32):
                bound = z3.And(za >= 0, za < (1 << K), zb >= 0, zb < (1 << K))
                if not self.run.feasible(z3.Not(bound)):
                    total = z3.IntVal(0)
                    for i in range(K):
                        ba, bb = (za / (1 << i)) % 2, (zb / (1 << i)) % 2
                        bit = z3.If(z3.Or(ba == 1, bb == 1), 1, 0) if op == "BitOr" else z3.If(ba != bb, 1, 0)
                        total = total + bit * (1 << i)
                    return self.wrap_int(total)
            raise Unsupported(f"| / ^ on operands whose bit ranges are not provably disjoint or bounded (math-int mode, line {self.lineno})")
        if op == "BitOr" and ((cb is not None and _pow2_exp(cb) is not None) or (ca is not None and _pow2_exp(ca) is not None)):
            bit, other = (cb, za) if cb is not None and _pow2_exp(cb) is not None else (ca, zb)
            k = _pow2_exp(bit)
            # x | 2^k  ==  x + 2^k if bit k clear else x
            return self.wrap_int(z3.If((other / (1 << k)) % 2 == 0, other + bit, other))
        if op == "Pow":
            if cb is not None and cb >= 0 and cb <= 8:
                r = z3.IntVal(1)
                for _ in range(cb):
                    r = r * za
                return self.wrap_int(r)
            return self.wrap_int(self.pow_uf(za, zb))
        if op == "Div":
            raise Unsupported("true division (float)")
        raise Unsupported(f"int operator {op} in math-int mode (line {self.lineno})")

    def pow2(self, e):
        f = z3.Function("pow2", z3.IntSort(), z3.IntSort())
        # facts about 2**e used with a symbolic exponent: positive for e >= 0, 2**0 == 1, one unfolding
        self.run.assume(z3.Implies(e >= 0, f(e) >= 1))
        self.run.assume(z3.Implies(e == 0, f(e) == 1))
        self.run.assume(z3.Implies(e >= 1, f(e) == 2 * f(e - 1)))
        return f(e)

    def pow_uf(self, a, b):
        f = z3.Function("ipow", z3.IntSort(), z3.IntSort(), z3.IntSort())
        # the only facts used about a**b with symbolic b: positivity and a**0 == 1
        self.run.assume(z3.Implies(z3.And(a >= 1, b >= 0), f(a, b) >= 1))
        self.run.assume(z3.Implies(b == 0, f(a, b) == 1))
        return f(a, b)

    def bv_binop(self, op, a, b):
        w = self.bv
        za, zb = self.to_z3(a, "int"), self.to_z3(b, "int")
        ob = lambda g, d: self.run.oblige("no-overflow", g, d, self.lineno) if not self.spec else None  # noqa: E731
        if op == "Add":
            ob(z3.And(z3.BVAddNoOverflow(za, zb, True), z3.BVAddNoUnderflow(za, zb)), f"{w}-bit + does not overflow")
            return self.wrap_int(za + zb)
        if op == "Sub":
            ob(z3.And(z3.BVSubNoOverflow(za, zb), z3.BVSubNoUnderflow(za, zb, True)), f"{w}-bit - does not overflow")
            return self.wrap_int(za - zb)
        if op == "Mult":
            ob(z3.And(z3.BVMulNoOverflow(za, zb, True), z3.BVMulNoUnderflow(za, zb)), f"{w}-bit * does not overflow")
            return self.wrap_int(za * zb)
        if op == "LShift":
            # result must fit: (a << b) >> b == a and sign preserved, 0 <= b < w
            ob(z3.And(zb >= 0, zb < w, ((za << zb) >> zb) == za), f"{w}-bit << does not overflow")
            return self.wrap_int(za << zb)
        if op == "RShift":
            ob(z3.And(zb >= 0, zb < w), "shift count in range")
            return self.wrap_int(za >> zb)  # arithmetic shift == Python floor shift
        if op == "BitAnd":
            return self.wrap_int(za & zb)
        if op == "BitOr":
            return self.wrap_int(za | zb)
        if op == "BitXor":
            return self.wrap_int(za ^ zb)
        if op in ("FloorDiv", "Mod"):
            self.may_raise("ZeroDivisionError", zb != 0)
            ob(z3.And(za >= 0, zb > 0), "// and % on non-negative operands (BV mode)")
            return self.wrap_int(z3.UDiv(za, zb) if op == "FloorDiv" else z3.URem(za, zb))
        raise Unsupported(f"int operator {op} in bit-vector mode")

    # ------------------------------------------------------------------ compare
    def compare(self, op, a, b):
        if op in ("Is", "IsNot"):
            r = self.identity(a, b)
            if op == "IsNot":
                r = (not r) if isinstance(r, bool) else self.wrap_bool(z3.Not(self.to_z3(r)))
            return r
        if op in ("In", "NotIn"):
            r = self.contains(b, a)
            if op == "NotIn":
                r = (not r) if isinstance(r, bool) else self.wrap_bool(z3.Not(self.to_z3(r)))
            return r
        # None-aware equality without resolving unions
        if op in ("Eq", "NotEq") and (isinstance(a, SUnion) or isinstance(b, SUnion)):
            a, b = self.resolve(a), self.resolve(b)
        a, b = self.resolve(a), self.resolve(b)
        return self.cmp_vals(_CMP[op], a, b)

    def cmp_vals(self, sym, a, b):
        a, b = self.resolve(a), self.resolve(b)
        if isinstance(a, SUndef) or isinstance(b, SUndef):
            return SBool(z3.Bool(self.run.fresh("undefined")))
        num = (int, SInt, SBool, float)
        if isinstance(a, num) and isinstance(b, num):
            if isinstance(a, (int, float)) and isinstance(b, (int, float)):
                return {"<": a < b, "<=": a <= b, ">": a > b, ">=": a >= b, "==": a == b, "!=": a != b}[sym]
            if isinstance(a, float) and a.is_integer():
                a = int(a)
            if isinstance(b, float) and b.is_integer():
                b = int(b)
            if isinstance(a, float) or isinstance(b, float):
                raise Unsupported("float comparison with a symbolic value")
            za, zb = self.to_z3(a, "int"), self.to_z3(b, "int")
            return self.wrap_bool(self.cmp_z3(sym, za, zb))
        if isinstance(a, SDec) or isinstance(b, SDec):
            if sym in ("==", "!="):
                da, db = self.as_dec(a), self.as_dec(b)
                if da is None or db is None:
                    # general string: compare as strings (zero-padded int.to.str)
                    sa = self.dec_to_str(a) if isinstance(a, SDec) else self.to_z3(a)
                    sb = self.dec_to_str(b) if isinstance(b, SDec) else self.to_z3(b)
                    e = sa == sb
                    return self.wrap_bool(e if sym == "==" else z3.Not(e))
                e = z3.And(da.v == db.v, self.dec_len(da) == self.dec_len(db))
                return self.wrap_bool(e if sym == "==" else z3.Not(e))
            raise Unsupported("ordering of decimal renderings")
        strs = (str, bytes, SStr)
        if isinstance(a, strs) and isinstance(b, strs):
            if sym in ("==", "!="):
                if self.kind_of(a) != self.kind_of(b):
                    return sym == "!="
                if not isinstance(a, SStr) and not isinstance(b, SStr):
                    return (a == b) if sym == "==" else (a != b)
                e = self.to_z3(a) == self.to_z3(b)
                return self.wrap_bool(e if sym == "==" else z3.Not(e))
            if not isinstance(a, SStr) and not isinstance(b, SStr):
                return {"<": a < b, "<=": a <= b, ">": a > b, ">=": a >= b}[sym]
            raise Unsupported("ordering of symbolic strings")
        if isinstance(a, (SSeq,)) or isinstance(b, (SSeq,)):
            if sym in ("==", "!=") and self.spec and (isinstance(a, (SStr, str)) or isinstance(b, (SStr, str))):
                # two representations of bytes that the spec compares on a path where the comparison is
                # irrelevant (guarded by an implication): an unconstrained Bool proves nothing
                return SBool(z3.Bool(self.run.fresh("repr_mismatch")))
            if sym in ("==", "!="):
                e = self.to_z3(a, "intseq") == self.to_z3(b, "intseq")
                return self.wrap_bool(e if sym == "==" else z3.Not(e))
        if sym in ("==", "!="):
            if isinstance(a, (tuple, SList)) and isinstance(b, (tuple, SList)) and type(a) is type(b):
                ia = list(a) if isinstance(a, tuple) else a.items
                ib = list(b) if isinstance(b, tuple) else b.items
                if len(ia) != len(ib):
                    return sym == "!="
                parts = [self.truth(self.cmp_vals("==", x, y)) for x, y in zip(ia, ib)]
                if all(isinstance(p, bool) for p in parts):
                    r = all(parts)
                    return r if sym == "==" else not r
                e = z3.And(*[z3.BoolVal(p) if isinstance(p, bool) else p for p in parts])
                return self.wrap_bool(e if sym == "==" else z3.Not(e))
            if isinstance(a, SDict) and isinstance(b, SDict) and not getattr(a, "sym_items", None) and not getattr(b, "sym_items", None):
                # dicts with concrete keys: equal iff same key set and equal values
                if set(a.items) != set(b.items):
                    return sym == "!="
                parts = [self.truth(self.cmp_vals("==", a.items[k], b.items[k])) for k in a.items]
                if all(isinstance(p, bool) for p in parts):
                    r = all(parts)
                    return r if sym == "==" else not r
                e = z3.And(*[z3.BoolVal(p) if isinstance(p, bool) else p for p in parts])
                return self.wrap_bool(e if sym == "==" else z3.Not(e))
            if a is None or b is None:
                r = a is None and b is None
                return r if sym == "==" else not r
            ta, tb = pytype_name(a), pytype_name(b)
            if ta != tb and "unknown" not in (ta, tb) and not ({ta, tb} <= {"int", "bool", "float"}):
                return sym == "!="
            if isinstance(a, (SObj, SExcClass, SType)) or isinstance(b, (SObj, SExcClass, SType)):
                r = a is b
                return r if sym == "==" else not r
        if self.spec and (a is None or b is None):
            # a spec term that Python would not evaluate (guarded by an implication / conjunction whose guard
            # is false on this path): an unconstrained Bool proves nothing and assumes nothing
            return SBool(z3.Bool(self.run.fresh("undefined")))
        raise Unsupported(f"comparison {sym} of {pytype_name(a)} and {pytype_name(b)} (line {self.lineno})")

    def as_dec(self, v):
        if isinstance(v, SDec):
            return v
        if isinstance(v, str) and v.isdigit() and v.isascii():
            return SDec(z3.IntVal(int(v)), len(v))
        return None

    def dec_to_str(self, d):
        s = z3.IntToStr(d.v)
        pad = z3.Function("str.zeros", z3.IntSort(), z3.StringSort())
        npad = z3.If(d.w - z3.Length(s) > 0, d.w - z3.Length(s), z3.IntVal(0))
        self.run.assume(z3.Length(pad(npad)) == npad)
        self.run.assume(z3.InRe(pad(npad), z3.Star(z3.Re("0"))))
        return z3.Concat(pad(npad), s)

    def dec_len(self, d):
        nd = z3.Function("ndigits", z3.IntSort(), z3.IntSort())
        self.run.assume(z3.Implies(d.v >= 10 ** d.w, nd(d.v) > d.w))
        return z3.If(d.v < 10 ** d.w, z3.IntVal(d.w), nd(d.v))

    def identity(self, a, b):
        if isinstance(a, SUndef) or isinstance(b, SUndef):
            return SBool(z3.Bool(self.run.fresh("undefined")))
        if isinstance(a, SUnion) and b is None:
            return self.wrap_bool(self.to_zbool(self.union_is(a, lambda v: v is None)))
        if isinstance(b, SUnion) and a is None:
            return self.wrap_bool(self.to_zbool(self.union_is(b, lambda v: v is None)))
        a, b = self.resolve(a), self.resolve(b)
        if a is None or b is None:
            return a is None and b is None
        if isinstance(a, bool) or isinstance(b, bool):
            if isinstance(a, bool) and isinstance(b, bool):
                return a is b
            if isinstance(a, SBool) or isinstance(b, SBool):
                return self.wrap_bool(self.to_z3(a) == self.to_z3(b))
            return False
        if isinstance(a, (SObj, SList, SDict, SClosure, SStub, SExcClass, SType, SMap, SSet)) or isinstance(b, (SObj, SList, SDict, SClosure, SStub, SExcClass, SType, SMap, SSet)):
            return a is b
        raise Unsupported(f"'is' between {pytype_name(a)} and {pytype_name(b)}")

    def to_zbool(self, x):
        return z3.BoolVal(x) if isinstance(x, bool) else x

    def contains(self, container, item):
        container = self.resolve(container)
        item = self.resolve(item)
        if isinstance(container, (str, bytes, SStr)):
            if isinstance(item, (int, SInt)) and self.kind_of(container) == "bytes":
                ch = z3.StrFromCode(self.to_z3(item, "int"))
                return self.wrap_bool(z3.Contains(self.to_z3(container), ch))
            if not isinstance(item, (str, bytes, SStr)):
                raise RaiseSig(SExc(exc_class("TypeError")), self.lineno)
            if not isinstance(container, SStr) and not isinstance(item, SStr):
                return item in container
            return self.wrap_bool(z3.Contains(self.to_z3(container), self.to_z3(item)))
        if isinstance(container, SSeq):
            return self.wrap_bool(z3.Contains(container.e, z3.Unit(self.to_z3(item, "int"))))
        if isinstance(container, SDict):
            if getattr(container, "sym_items", None):
                raise Unsupported("membership test on a dict that received symbolic keys")
            if isinstance(item, (SStr, SInt)):
                parts = [self.truth(self.cmp_vals("==", item, k)) for k in container.items]
                parts = [p for p in parts if p is not False]
                if not parts:
                    return False
                if any(p is True for p in parts):
                    return True
                return self.wrap_bool(z3.Or(*parts))
            return item in container.items
        if isinstance(container, SMap):
            return self.wrap_bool(z3.Select(container.dom, self.to_z3(item)))
        if isinstance(container, SObj) and "__contains__" in container.fields:
            return self.call_value(container.fields["__contains__"], [item], {})
        items = self.static_items(container)
        if items is not None:
            parts = []
            for x in items:
                try:
                    p = self.truth(self.cmp_vals("==", item, x))
                except Unsupported:
                    p = item is x
                if p is True:
                    return True
                if p is not False:
                    parts.append(p)
            if not parts:
                return False
            return self.wrap_bool(z3.Or(*parts))
        raise Unsupported(f"'in' on {pytype_name(container)}")

    # ------------------------------------------------------------------ attribute access
    def getattr_value(self, obj, attr):
        obj = self.resolve(obj)
        if isinstance(obj, SUndef):
            return obj
        if isinstance(obj, SObj):
            return self.obj_getattr(obj, attr)
        if isinstance(obj, SModule):
            if attr in obj.attrs:
                return obj.attrs[attr]
            if obj.name in ("exc", "passlib.exc"):
                return exc_class(attr)
            if attr in _MODULE_ALIASES and obj.name in ("uh",):
                return SModule(attr, {"__file__": _MODULE_ALIASES[attr]})
            f = obj.attrs.get("__file__")
            if f:
                val = self.module_level(f, attr)
                if val is not None:
                    return val[0]
            raise Unsupported(f"module attribute {obj.name}.{attr}")
        if isinstance(obj, SStub) and attr in obj.attrs:
            return obj.attrs[attr]
        if isinstance(obj, SClosure) and attr in getattr(obj, "attrs", {}):
            return obj.attrs[attr]
        if isinstance(obj, SExc):
            if attr == "args":
                return tuple(obj.args)
            if attr in getattr(obj, "kwargs", {}):
                return obj.kwargs[attr]
            raise Unsupported(f"exception attribute {attr}")
        return self.method_of(obj, attr)

    def obj_getattr(self, obj, attr, start_after=None):
        o = obj
        while o is not None and start_after is None:
            if attr in o.fields:
                v = o.fields[attr]
                if isinstance(v, SClosure) and v.self_obj is None and getattr(v, "bind", False):
                    return SClosure(v.node, v.env, v.info, self_obj=obj, name=v.name, owner=v.owner)
                return v
            o = o.parent
        # class source fall-back
        o = obj
        cref = None
        while o is not None:
            if o.cls is not None:
                cref = o.cls
                break
            o = o.parent
        if attr == "__name__" and obj.is_class:
            return obj.name
        if attr == "__dict__":
            d = SDict()
            d.items = obj.fields  # shared: mutations through __dict__ reach the object
            d.owner = obj
            return d
        if attr == "__class__":
            return self.type_of_obj(obj)
        if cref is None:
            raise Unsupported(f"attribute {obj.name}.{attr} not declared in the contract (line {self.lineno})")
        found = cref.find_attr(attr, after=start_after)
        if found is None:
            if cref.any_incomplete():
                raise Unsupported(f"attribute {obj.name}.{attr}: class {cref.name} has bases outside the repository source")
            if not self.spec:
                raise RaiseSig(SExc(exc_class("AttributeError")), self.lineno)
            raise Unsupported(f"attribute {obj.name}.{attr} not found in class source")
        owner, kind, node = found
        if kind == "value":
            try:
                return self.lift_const(extract.const_eval(node, None, owner.relpath))
            except extract.NotConstant:
                return self.eval(node, Env(self.genv, {}))
        decos = [extract._decorator_name(d) for d in node.decorator_list]
        target = f"{owner.relpath}::{owner.name}.{attr}"
        info = extract.find(target)
        if target in self.registry and target != self.c.target and target not in self.c.inline:
            callee = self.contract_callee(self.registry[target], self_obj=obj if "staticmethod" not in decos else None)
            if {"property", "memoized_property", "classproperty", "cached_property"} & set(decos):
                return self.call_value(callee, [], {})
            return callee
        if "staticmethod" in decos:
            return SClosure(node, self.genv, info=info, name=attr, owner=owner)
        self_obj = obj
        if "classmethod" in decos or "classproperty" in decos:
            self_obj = obj if obj.is_class else self.type_of_obj(obj)
        clo = SClosure(node, self.genv, info=info, self_obj=self_obj, name=attr, owner=owner)
        if {"property", "memoized_property", "classproperty", "cached_property"} & set(decos):
            return self.call_value(clo, [], {})
        return clo

    def type_of_obj(self, obj):
        if obj.is_class:
            return SType("type")
        t = obj.fields.get("__class__")
        if t is not None:
            return t
        # the class object of an instance: a record sharing the ClassRef
        t = SObj(f"type({obj.name})", cls=obj.cls, is_class=True)
        t.parent = None
        obj.fields["__class__"] = t
        return t

    def setattr_value(self, obj, attr, v):
        obj = self.resolve(obj)
        if isinstance(obj, SClosure):
            obj.attrs = getattr(obj, "attrs", {})
            obj.attrs[attr] = v
            return
        if not isinstance(obj, SObj):
            raise Unsupported(f"attribute assignment on {pytype_name(obj)}")
        self.note_write(obj, attr)
        obj.fields[attr] = v

    # ------------------------------------------------------------------ calls
    def ev_Call(self, node, env):
        # super()
        if isinstance(node.func, ast.Attribute) and isinstance(node.func.value, ast.Call) and isinstance(node.func.value.func, ast.Name) and node.func.value.func.id == "super":
            return self.super_call(node, env)
        special = self.char_class_form(node, env)
        if special is not None:
            return special
        fn = self.eval(node.func, env)
        args = []
        for a in node.args:
            if isinstance(a, ast.Starred):
                args.extend(self.static_items_req(self.eval(a.value, env)))
            else:
                args.append(self.eval(a, env))
        kwargs = {}
        for kw in node.keywords:
            if kw.arg is None:
                d = self.resolve(self.eval(kw.value, env))
                if not isinstance(d, SDict):
                    raise Unsupported("** of non-dict in call")
                kwargs.update(d.items)
            else:
                kwargs[kw.arg] = self.eval(kw.value, env)
        self.lineno = node.lineno
        return self.call_value(fn, args, kwargs)

    def char_class_form(self, node, env):
        """any(c not in ALPHABET for c in S) / all(c in ALPHABET for c in S) with S a symbolic string and ALPHABET a
        concrete string: decided as membership of S in ALPHABET* (exact)"""
        if not (isinstance(node.func, ast.Name) and node.func.id in ("any", "all") and len(node.args) == 1 and isinstance(node.args[0], ast.GeneratorExp)):
            return None
        g = node.args[0]
        if len(g.generators) != 1 or g.generators[0].ifs or not isinstance(g.generators[0].target, ast.Name):
            return None
        elt = g.elt
        if not (isinstance(elt, ast.Compare) and len(elt.ops) == 1 and isinstance(elt.ops[0], (ast.In, ast.NotIn)) and isinstance(elt.left, ast.Name) and elt.left.id == g.generators[0].target.id):
            return None
        src = self.resolve(self.eval(g.generators[0].iter, env))
        if not isinstance(src, SStr):
            return None
        alpha = self.resolve(self.eval(elt.comparators[0], env))
        if not isinstance(alpha, (str, bytes)):
            return None
        chars = alpha if isinstance(alpha, str) else alpha.decode("latin-1")
        if not chars:
            inside = z3.Length(src.e) == 0
        else:
            inside = z3.InRe(src.e, z3.Star(z3.Union(*[z3.Re(c) for c in sorted(set(chars))]) if len(set(chars)) > 1 else z3.Re(chars[0])))
        is_in = isinstance(elt.ops[0], ast.In)
        uniq = sorted(set(chars))
        some_in = z3.Or(*[z3.Contains(src.e, z3.StringVal(c)) for c in uniq]) if uniq else z3.BoolVal(False)
        if node.func.id == "all":
            res = inside if is_in else (z3.Not(some_in) if len(uniq) <= 16 else None)
        else:
            res = z3.Not(inside) if not is_in else (some_in if len(uniq) <= 16 else None)
        if res is None:
            return None
        return self.wrap_bool(res)

    def super_call(self, node, env):
        attr = node.func.attr
        hook = self.c.globals.get("super." + attr)
        args = [self.eval(a, env) for a in node.args]
        kwargs = {}
        for kw in node.keywords:
            if kw.arg is None:
                d = self.resolve(self.eval(kw.value, env))
                kwargs.update(d.items)
            else:
                kwargs[kw.arg] = self.eval(kw.value, env)
        top = self.func_stack[-1]
        selfobj = top[2]
        owner = top[3] if len(top) > 3 else None
        sargs = node.func.value.args
        if len(sargs) == 2:
            # super(Class, obj): the lookup starts after Class in the MRO of type(obj)
            cv = self.resolve(self.eval(sargs[0], env))
            selfobj = self.resolve(self.eval(sargs[1], env))
            owner = getattr(cv, "cls", None) if isinstance(cv, SObj) and cv.is_class else None
            if owner is None:
                raise Unsupported(f"super({ast.unparse(sargs[0])}, ...) with an unresolved class (line {node.lineno})")
        if hook is not None:
            return self.call_value(hook, ([selfobj] if selfobj is not None else []) + args, kwargs)
        if selfobj is None or owner is None:
            raise Unsupported(f"super().{attr} without a model (line {node.lineno})")
        v = self.obj_getattr(selfobj, attr, start_after=owner)
        return self.call_value(v, args, kwargs)

    def call_value(self, fn, args, kwargs):
        fn = self.resolve(fn)
        if isinstance(fn, SUndef):
            return fn
        if isinstance(fn, SStub):
            return fn.fn(self, list(args), dict(kwargs))
        if isinstance(fn, SClosure):
            return self.call_closure(fn, args, kwargs)
        if isinstance(fn, SExcClass):
            e = SExc(fn, tuple(args))
            e.kwargs = dict(kwargs)
            return e
        if isinstance(fn, SType):
            return self.call_type(fn, args, kwargs)
        if isinstance(fn, SOpaque):
            return SOpaque("call")
        if type(fn).__name__ == "builtin_function_or_method" and isinstance(getattr(fn, "__self__", None), (str, bytes)):
            # a bound method of a constant string captured in a module constant (e.g. join_unicode = "".join)
            return self.call_value(self.method_of(fn.__self__, fn.__name__), args, kwargs)
        if isinstance(fn, SObj) and fn.is_class:
            hook = self.c.globals.get("new." + fn.name) or self.c.globals.get("new.*")
            if hook is not None:
                return self.call_value(hook, [fn] + list(args), kwargs)
            return self.instantiate(fn, args, kwargs)
        raise Unsupported(f"call of {fn!r} (line {self.lineno})")

    def instantiate(self, cls_obj, args, kwargs):
        inst = SObj(self.run.fresh(f"new {cls_obj.name}"), cls=cls_obj.cls, fresh=True)
        inst.fields["__class__"] = cls_obj
        inst.parent = cls_obj
        init = None
        try:
            init = self.obj_getattr(inst, "__init__")
        except (Unsupported, RaiseSig):
            init = None
        if isinstance(init, (SClosure, SStub)):
            self.call_value(init, args, kwargs)
        elif args or kwargs:
            raise Unsupported(f"constructor of {cls_obj.name} with arguments but no __init__ found")
        return inst

    def call_closure(self, clo, args, kwargs):
        if self.call_depth >= self.c.max_depth:
            raise Unsupported(f"inline depth {self.c.max_depth} exceeded at {clo.name}")
        fn = clo.node
        env = Env(clo.env, {})
        a = fn.args
        pos = [x.arg for x in a.posonlyargs + a.args]
        allargs = list(args)
        if clo.self_obj is not None:
            allargs = [clo.self_obj] + allargs
        bound = {}
        if len(allargs) > len(pos):
            if a.vararg is None:
                raise RaiseSig(SExc(exc_class("TypeError")), self.lineno)
            bound[a.vararg.arg] = tuple(allargs[len(pos) :])
            allargs = allargs[: len(pos)]
        elif a.vararg is not None:
            bound[a.vararg.arg] = ()
        for n, v in zip(pos, allargs):
            bound[n] = v
        extra = {}
        kwnames = set(pos) | {x.arg for x in a.kwonlyargs}
        for k, v in kwargs.items():
            if k in kwnames:
                if k in bound:
                    raise RaiseSig(SExc(exc_class("TypeError")), self.lineno)
                bound[k] = v
            else:
                extra[k] = v
        if a.kwarg is not None:
            bound[a.kwarg.arg] = SDict(extra)
        elif extra:
            raise RaiseSig(SExc(exc_class("TypeError")), self.lineno)
        defaults = {}
        for p, d in zip(pos[len(pos) - len(a.defaults) :], a.defaults):
            defaults[p] = d
        for p, d in zip(a.kwonlyargs, a.kw_defaults):
            if d is not None:
                defaults[p.arg] = d
        is_gen = _has_yield(fn)
        saved_line = self.lineno
        self.func_stack.append((clo.name, clo.info or (self.func_stack[-1][1] if self.func_stack else None), clo.self_obj, clo.owner))
        self.fn_nodes = getattr(self, "fn_nodes", [])
        self.fn_nodes.append(fn)
        try:
            # defaults are evaluated in the callee's module (names resolve against its file)
            for n in list(pos) + [x.arg for x in a.kwonlyargs]:
                if n not in bound:
                    if n in defaults:
                        bound[n] = self.eval(defaults[n], clo.env)
                    else:
                        raise RaiseSig(SExc(exc_class("TypeError")), self.lineno)
        except BaseException:
            self.func_stack.pop()
            self.fn_nodes.pop()
            raise
        env.vars.update(bound)
        self.call_depth += 1
        col = None
        if is_gen:
            from .interp import Collector

            col = Collector()
            self.collectors.append(col)
        try:
            try:
                self.exec_body(extract.strip_docstring(fn.body), env)
                result = None
            except ReturnSig as r:
                result = r.value
        finally:
            self.call_depth -= 1
            self.func_stack.pop()
            self.fn_nodes.pop()
            if is_gen:
                self.collectors.pop()
            self.lineno = saved_line
        if is_gen:
            if col.seq is not None:
                return SStr(col.seq, "str") if col.kind == "str" else SSeq(col.seq, "gen")
            return SList(col.items)
        return result

    def contract_callee(self, callee_contract, self_obj=None):
        """a callable that checks the callee's requires and assumes its ensures (modular call)"""
        cc = callee_contract

        def call(it, args, kwargs):
            return it.call_by_contract(cc, args, kwargs, self_obj)

        return SStub(call, f"contract:{cc.id}")


def _has_yield(fn):
    for st in fn.body:
        if isinstance(st, (ast.FunctionDef, ast.ClassDef)):
            continue
        for n in _walk_no_nested(st):
            if isinstance(n, (ast.Yield, ast.YieldFrom)):
                return True
    return False


def _walk_no_nested(node):
    yield node
    for child in ast.iter_child_nodes(node):
        if isinstance(child, (ast.FunctionDef, ast.Lambda, ast.ClassDef)):
            continue
        yield from _walk_no_nested(child)


def _unescape_z3(s):
    # z3 renders non-printable characters as \u{..}
    import re

    return re.sub(r"\\u\{([0-9a-fA-F]+)\}", lambda m: chr(int(m.group(1), 16)), s)


class SSymRange:
    def __init__(self, start, n):
        self.start = start
        self.n = n
