"""C16, continued: _CommonFile._load_lines establishes the representation invariant from ANY sequence of lines.

lines: abstract finite iterable (unknown length), line i = LINE(i); a line is a comment/blank line or a record line
(abstract predicate through the real lstrip()/startswith('#') test); _parse_record is abstract: key = KEY(line), value =
VAL(line), free to raise ValueError.  The local dict ``records`` is modelled as a symbolic map (arrays), the local list
``source`` as the ghost multiset of its (_RECORD, key) entries (as in c16.py)."""
import z3

from contracts.trusted import may_fail
from pyvc.contract import Contract, Loop, Obj
from pyvc.values import SAbsIter, SBool, SInt, SMap, SObj, SStr, SStub

A = "passlib/apache.py"
S = z3.StringSort()
LINE = z3.Function("line", z3.IntSort(), S)
KEY = z3.Function("record_key", S, S)
VAL = z3.Function("record_value", S, S)


def _records(it):
    dom = z3.K(S, z3.BoolVal(False))
    arr = z3.K(S, z3.StringVal(""))
    m = SMap(dom, arr, S, lambda e: SStr(e, "bytes"), "records")
    it.run.ghost["records"] = m
    return m


def _source(it):
    tok = {"arr": z3.K(S, z3.IntVal(0)), "skipped_entries": 0}

    def append(i, a, k):
        tag, payload = i.unpack(a[0], 2)
        if i.resolve(tag) == "record":
            kz = i.to_z3(payload)
            tok["arr"] = z3.Store(tok["arr"], kz, z3.Select(tok["arr"], kz) + 1)

    def havoc(i, name):
        tok["arr"] = z3.Const(i.run.fresh(name + ".count"), tok["arr"].sort())

    o = SObj("_source (ghost multiset)", fresh=True, fields={"append": SStub(append, "_source.append"), "__havoc__": havoc})
    it.run.ghost["tokens"] = tok
    return o


def _inv_at(it, k):
    g = it.run.ghost
    c = z3.Select(g["tokens"]["arr"], k)
    d = z3.Select(g["records"].dom, k)
    return z3.And(c >= 0, c <= 1, d == (c == 1))


Q = z3.String("any_key")  # free constant: an invariant stated at Q holds for every key


def _inv(it, env):
    return _inv_at(it, Q)


def _inv_touched(it, env):
    """the same invariant at the key of the line this iteration reads"""
    i = env.lookup("__i0__")
    return _inv_at(it, KEY(LINE(it.to_z3(i, "int"))))


def _setup(it, args):
    n = z3.Int("number_of_lines")
    it.run.assume(n >= 0)
    args["lines"] = SAbsIter(SInt(n), lambda i: SStr(LINE(it.to_z3(i, "int")), "bytes"), "lines")

    def parse(i, a, k):
        may_fail(i, "ValueError", "_parse_record")
        ln = i.to_z3(a[0])
        return (SStr(KEY(ln), "bytes"), SStr(VAL(ln), "bytes"))

    self = args["self"]
    self.fields["_parse_record"] = SStub(parse, "_parse_record", trusted="(key, value) are functions of the line; malformed lines raise ValueError")
    return None


def _post(it, env):
    self = it.resolve(env.lookup("self"))
    g = it.run.ghost
    same = self.fields.get("_records") is g["records"] and isinstance(self.fields.get("_source"), SObj) and self.fields["_source"].name.startswith("_source")
    return z3.And(z3.BoolVal(bool(same)), _inv(it, env))


CONTRACTS = [
    Contract(
        "_CommonFile._load_lines", f"{A}::_CommonFile._load_lines",
        params={"self": Obj(), "lines": None},
        setup=_setup,
        globals={"_RECORD": "record", "_SKIPPED": "skipped", "_BHASH": b"#",
                 "logging": SObj("logging", fields={"warning": SStub(lambda i, a, k: None, "logging.warning")})},
        local_models={"records": _records, "source": _source},
        loops={"_load_lines#0": Loop(invariant=[_inv], instances=[_inv_touched],
                                     modifies=["idx", "line", "tmp", "key", "value", "skipped", "records", "source"])},
        raises={"ValueError": lambda it, env: z3.BoolVal("_records" not in it.resolve(env.lookup("self")).fields)},
        ensures=[("after loading ANY sequence of lines: each user has exactly one source entry, no key more than one (duplicate lines dropped), and the new maps are installed together", _post)],
        descr="any number of lines, any mixture of comment / blank / record / duplicate / malformed lines",
    )
]

MUTANTS = [
    ("_load_lines: a duplicate user line gets a second source entry", A, "                # NOTE: the duplicate line is dropped; keeping it as \"skipped\" text\n                #       would write the user out twice (and bring a deleted user back).\n                continue\n", "                source.append((_RECORD, key))\n                continue\n", "refute", "_load_lines"),
    ("_load_lines: record stored without a source entry", A, "            records[key] = value\n            source.append((_RECORD, key))\n", "            records[key] = value\n", "refute", "_load_lines"),
    ("_load_lines: records installed before parsing finished (not atomic)", A, "        records = {}\n        source = []\n        skipped = b\"\"\n", "        records = self._records = {}\n        source = []\n        skipped = b\"\"\n", "refute", "_load_lines"),
]
