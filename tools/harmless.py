#!/usr/bin/env python3
"""Semantics-preserving edits of functions under contract: each is applied to a scratch copy of /repo and the property's quick check
must still exit 0 (an obligation may become undecided -- a reshaped loop -- but nothing may be reported as a violation).
Usage: harmless.py [--jobs N] [label regex]"""
import concurrent.futures as cf, os, re, shutil, subprocess, sys
V = os.path.dirname(os.path.dirname(os.path.abspath(__file__)))
EDITS = [
    ("C06", "getrandstr: loop counter renamed", "passlib/utils/__init__.py",
     "        i = 0\n        while i < count:\n            yield charset[value % letters]\n            value //= letters\n            i += 1\n",
     "        pos = 0\n        while pos < count:\n            yield charset[value % letters]\n            value //= letters\n            pos += 1\n"),
    ("C06", "getrandstr: floor division written with divmod", "passlib/utils/__init__.py",
     "            yield charset[value % letters]\n            value //= letters\n", "            value, digit = divmod(value, letters)\n            yield charset[digit]\n"),
    ("C14", "_find_match: comparison operands swapped", "passlib/totp.py", "        if end <= start:\n            raise InvalidTokenError\n", "        if start >= end:\n            raise InvalidTokenError\n"),
    ("C09", "norm_integer: comparison operands swapped", "passlib/utils/handlers.py", "    if value < min:\n", "    if min > value:\n"),
    ("C16", "_set_record: condition rewritten with De Morgan", "passlib/apache.py", "        if not existing and (_RECORD, key) not in self._source:\n", "        if not (existing or (_RECORD, key) in self._source):\n"),
    ("C18", "unix_disabled.enable: slice written with a variable", "passlib/handlers/misc.py", "                orig = hash[len(prefix) :]\n", "                n = len(prefix)\n                orig = hash[n:]\n"),
    ("C07", "render_mc2: list built in two steps", "passlib/utils/handlers.py", "        parts = [ident, salt, sep, checksum]\n", "        parts = [ident, salt]\n        parts += [sep, checksum]\n"),
    ("C04", "needs_update: operands of `or` kept, parenthesised", "passlib/context.py", "        return record.deprecated or record.needs_update(hash, secret=secret)", "        return bool(record.deprecated) or record.needs_update(hash, secret=secret)"),
    ("C11", "pbkdf1: loop variable named", "passlib/crypto/digest.py", "    for _ in range(rounds):\n        block = const(block).digest()", "    for _round in range(rounds):\n        block = const(block).digest()"),
    ("C02", "md5-crypt: blocks counted upwards", "passlib/handlers/md5_crypt.py", "    blocks = 23\n    while blocks:\n        for even, odd in data:\n            dc = md5(odd + md5(dc + even).digest()).digest()\n        blocks -= 1\n",
     "    for _block in range(23):\n        for even, odd in data:\n            dc = md5(odd + md5(dc + even).digest()).digest()\n"),
    ("C10", "_init_options: try/except written with setdefault chain that keeps last-wins", "passlib/context.py",
     "                    else:\n                        option_map[key] = value", "                    else:\n                        option_map.update({key: value})"),
    ("C12", "check_repair_unused: tail computed with modulo", "passlib/utils/binary.py", "        tail = len(source) & 3\n", "        tail = len(source) % 4\n"),
    ("C03", "set_backend: early return condition reordered", "passlib/utils/handlers.py", "        if (name == \"any\" and cls.__backend) or (name and name == cls.__backend):", "        if (name and name == cls.__backend) or (name == \"any\" and cls.__backend):"),
    ("C15", "_from_parsed_uri: membership test written with dict.get", "passlib/totp.py", "            if k in params:\n                raise cls._uri_parse_error(f\"duplicate parameter ({k!r})\")", "            if k in params.keys():\n                raise cls._uri_parse_error(f\"duplicate parameter ({k!r})\")"),
    ("C13", "normalize_time: isinstance checks merged", "passlib/totp.py", "        if isinstance(time, int):\n            return time\n        if isinstance(time, float):\n            return int(time)\n", "        if isinstance(time, (int, float)):\n            return int(time)\n"),
    ("C05", "_check_truncate_policy callers unchanged; validate_secret comparison flipped", "passlib/utils/handlers.py", "    if len(secret) > MAX_PASSWORD_SIZE:\n", "    if MAX_PASSWORD_SIZE < len(secret):\n"),
    ("C08", "bcrypt.needs_update untouched; parse_mc2 local renamed", "passlib/utils/handlers.py", "        salt, chk = parts\n        return salt, chk or None\n", "        salt_part, chk = parts\n        return salt_part, chk or None\n"),
    ("C01", "GenericHandler.verify: local renamed", "passlib/utils/handlers.py", "        chk = self.checksum\n        if chk is None:\n            raise exc.MissingDigestError(cls)\n        return consteq(self._calc_checksum(secret), chk)", "        stored = self.checksum\n        if stored is None:\n            raise exc.MissingDigestError(cls)\n        return consteq(self._calc_checksum(secret), stored)"),
    ("C17", "_init_htpasswd_context: local renamed", "passlib/apache.py", "preferred", "wanted"),
    ("C20", "libpass needs_update (pbkdf2): early return rewritten", "libpass/hashers/pbkdf2.py", "        if not hash_info:\n            return True\n        return hash_info.rounds != self._rounds", "        if hash_info is None:\n            return True\n        return self._rounds != hash_info.rounds"),
]
args = sys.argv[1:]
jobs = 4
if "--jobs" in args: i = args.index("--jobs"); jobs = int(args[i + 1]); del args[i:i + 2]
pat = args[0] if args else None

def one(e):
    pid, label, rel, old, new = e
    scr = f"/tmp/hl_{abs(hash(label)) % 10**8}"
    shutil.rmtree(scr, ignore_errors=True)
    subprocess.run(f"rsync -a --exclude .git /repo/ {scr}/", shell=True)
    try:
        p = os.path.join(scr, rel); s = open(p).read()
        n = s.count(old)
        if n == 0:
            return e, "PATTERN-MISSING", ""
        open(p, "w").write(s.replace(old, new))
        r = subprocess.run(f"cd {scr} && PYTHONPATH={scr} /venv/bin/python -c 'import passlib.hash, passlib.apache, passlib.totp, libpass.hashers.pbkdf2'", shell=True, capture_output=True, text=True)
        if r.returncode:
            return e, "EDIT-BREAKS-IMPORT", r.stderr[-200:]
        env = dict(os.environ, PYVC_REPO=scr, PYVC_EVIDENCE_DIR=scr + "_ev", PYVC_WORKERS=str(max(2, 16 // jobs)))
        c = subprocess.run(["./check", pid], cwd=V, env=env, capture_output=True, text=True, timeout=3600)
        viol = [l for l in c.stdout.splitlines() if l.startswith("VIOLATION")]
        und = [l for l in c.stdout.splitlines() if l.startswith("NOTE undecided")]
        return e, ("ok" if c.returncode == 0 and not viol else "FALSE-ALARM"), f"rc={c.returncode} undecided={len(und)} " + (viol[0][:160] if viol else (und[0][:140] if und else ""))
    finally:
        shutil.rmtree(scr, ignore_errors=True); shutil.rmtree(scr + "_ev", ignore_errors=True)

todo = [e for e in EDITS if not pat or re.search(pat, e[1]) or re.search(pat, e[0])]
bad = 0
with cf.ThreadPoolExecutor(jobs) as ex:
    for e, verdict, info in ex.map(one, todo):
        print(f"{verdict:12s} {e[0]} {e[1]}: {info}", flush=True)
        bad += verdict != "ok"
sys.exit(1 if bad else 0)
