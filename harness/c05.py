"""Bounded stand-in for C05: size limits -- no silent truncation when forbidden, no oversized passwords.

Groups
* truncate-error-on   truncating hashers with truncate_error enabled (hasher.using, CryptContext(truncate_error=True),
                      CryptContext(<scheme>__truncate_error=True), class default for cisco_pix/cisco_asa) x passwords of
                      byte length limit-1, limit, limit+1 (and k*limit, limit+2, limit+3) built from 1/2/3/4-byte UTF-8
                      characters, as str and bytes, lmhash under several encodings.
* truncate-error-off  the same hashers with truncation allowed: exactly the first limit-many bytes matter.
* max-password-size   every hasher and a CryptContext around it: 4095/4096 accepted (unless the format has its own
                      smaller documented limit) and, for formats without a limit, dependent on bytes at sampled
                      positions up to 4095; 4097 refused with PasswordSizeError by hash and verify, str and bytes.
* nul-refusal         NUL at every position <= 16: refused (ValueError subclass) by the crypt()-compatible formats
                      under every available backend; never accepted as a shorter password by any hasher.

The limit is in bytes of the encoded password (lmhash: of the upper-cased password in the chosen code page).
Equivalences (7-bit DES keys, case folding, ...) come from the table in c01.py (built from the documentation):
a changed byte only counts as "different" when the canonical forms are disjoint.
"""
import time

import c01
from c01 import EQUIV, _b, _t, base_of, eq_exact
from common import Group, main

#: formats that store a crypt(3)-style hash handled by the OS crypt() ("OS crypt() supporting hashes, which forbid
#: NULLs in password" -- passlib.exc.NullPasswordError); wrappers around them are added by base name.
CRYPT_COMPAT = {"des_crypt", "bsdi_crypt", "md5_crypt", "sha1_crypt", "sha256_crypt", "sha512_crypt", "bcrypt"}
CRYPT_COMPAT_BY_NAME = {"django_des_crypt"}  # stores a des_crypt hash (django_std.rst)

CHARS = {
    1: "abcdefghijkmnpqrstuvwxyz23456789ABCDEFGHJKLMNPQRSTUVWXYZ",
    2: "éñüöäåçæèêëîïôûùÿ",  # Latin-1 supplement, all in cp437/cp850/latin-1 except as noted per encoding
    3: "€中文日本語あアカサタナ",
    4: "\U0001f601\U00010348\U0001d11e\U0001f389\U0001f60a\U00010400",
}
# (no character above contains the byte 0x80: under the 7-bit DES formats it would read as NUL padding)


def build_pw(k, nbytes, pad_front, enc="utf-8"):
    """text whose encoding has exactly nbytes bytes, made of k-byte characters (in enc) padded with 1-byte ones"""
    body = []
    size = 0
    i = 0
    alphabet = [c for c in CHARS[k] if _enc_len(c, enc) is not None and _enc_len(c.upper(), enc) is not None and (enc != "utf-8" or _enc_len(c, enc) == k)]
    if not alphabet:
        return None
    while True:
        c = alphabet[i % len(alphabet)]
        n = _enc_len(c, enc)
        if size + n > nbytes:
            break
        body.append(c)
        size += n
        i += 1
    pad = "".join(CHARS[1][j % len(CHARS[1])] for j in range(nbytes - size))
    s = pad + "".join(body) if pad_front else "".join(body) + pad
    return s


def _enc_len(c, enc):
    try:
        return len(c.encode(enc))
    except UnicodeError:
        return None


def encodable(s, enc):
    try:
        s.encode(enc)
        s.upper().encode(enc)
    except UnicodeError:
        return False
    return True


def call(fn, *a, **k):
    try:
        return ("ok", fn(*a, **k))
    except Exception as err:  # noqa: BLE001
        return ("exc", err)


def exname(o):
    return type(o[1]).__name__ if o[0] == "exc" else None


def show(x):
    if isinstance(x, bytes):
        return {"bytes_hex": x.hex()} if len(x) <= 120 else {"bytes_head_hex": x[:32].hex(), "len": len(x)}
    return x if len(x) <= 120 else {"head": x[:32], "len": len(x)}


def ctx_kwds(h):
    kw = {}
    if "user" in h.context_kwds:
        kw["user"] = "admin"
    if "realm" in h.context_kwds:
        kw["realm"] = "realm"
    return kw


def cheap(h):
    base = base_of(h)
    if "rounds" in h.setting_kwds:
        return h.using(rounds=base.min_rounds)
    return h


def usable(h, skipped, name):
    base = base_of(h)
    if getattr(base, "backends", None):
        try:
            ok = any(base.has_backend(b) for b in base.backends)
        except Exception:  # noqa: BLE001
            ok = False
        if not ok:
            skipped.append(f"{name}: no backend on this host")
            return False
    return True


def distinct_byte(canon, cfg, b, i, as_text_ok):
    """b with byte i replaced by something outside the documented equivalences (None if impossible)"""
    own = canon(b, cfg)
    for rep in (0x23, 0x25, 0x37, 0x51, 0x7A, 0x2E):
        if b[i] == rep:
            continue
        alt = b[:i] + bytes([rep]) + b[i + 1 :]
        if not (canon(alt, cfg) & own):
            return alt
    return None


# =====================================================================================================
def build(tier, rng):
    from passlib import exc, registry
    from passlib.context import CryptContext

    quick = tier == "quick"
    skipped = []
    t_start = time.time()
    handlers = {}
    for name in registry.list_crypt_handlers():
        try:
            h = registry.get_crypt_handler(name)
        except Exception as err:  # noqa: BLE001
            skipped.append(f"{name}: cannot load ({type(err).__name__})")
            continue
        if usable(h, skipped, name):
            handlers[name] = h

    trunc = {n: h for n, h in handlers.items() if getattr(base_of(h), "truncate_size", None)}
    counts = {"truncate_error_raised": 0, "accepted_over_limit": 0}

    # ------------------------------------------------------------------------------------------------
    g_on = Group(
        "truncate-error-on",
        "TruncateMixin._check_truncate_policy",
        f"{sorted(trunc)} x truncate_error on via using()/CryptContext(truncate_error=True)/CryptContext(scheme__truncate_error=True)/update() or copy() over a context that said off/class default (cisco)"
        " x byte lengths L-1, L, L+1 (thorough: L+2, L+3), k*L and ceil((L+1)/k) chars, k in 1..4 byte chars, pad front/back, str and bytes; lmhash x cp437/utf-8/latin-1/cp850:"
        " over the limit -> PasswordTruncateError (cisco: PasswordSizeError) or whole password used; at/below the limit -> accepted, verifies, extensions inside the limit do not",
    )
    g_off = Group(
        "truncate-error-off",
        "truncating _calc_checksum call sites",
        "same hashers (not cisco) with truncate_error off (default, using(False), CryptContext) x same passwords: hash never raises; verify(first L bytes + anything) True for hash(pw) and"
        " verify(pw) True for hash(first L bytes); changing any single byte before L -> False, any byte after L -> True",
    )

    def lengths(L):
        ns = [L - 1, L, L + 1]
        if not quick:
            ns += [L + 2, L + 3, L - 2, 2 * L]
        return ns

    def pw_set(L, enc):
        out = []
        for k in (1, 2, 3, 4):
            ns = set(lengths(L)) | {k * L, k * (-(-(L + 1) // k))}
            for n in sorted(ns):
                for front in (False, True):
                    s = build_pw(k, n, front, enc)
                    if s is None or not encodable(s, enc):
                        continue
                    if k == 1 and front:
                        continue
                    out.append((k, n, front, s))
        seen = set()
        res = []
        for item in out:
            if item[3] not in seen:
                seen.add(item[3])
                res.append(item)
        return res

    for name, h in sorted(trunc.items()):
        base = base_of(h)
        L = base.truncate_size
        canon, _sig = EQUIV.get(base.name, (eq_exact, None))
        is_cisco = base.name in ("cisco_pix", "cisco_asa")
        encs = ["cp437", "utf-8", "latin-1", "cp850"] if name == "lmhash" else ["utf-8"]
        ck = ctx_kwds(h)
        hc = cheap(h)
        rounds_kw = {f"{name}__rounds": base.min_rounds} if "rounds" in h.setting_kwds else {}

        def modes_on():
            if is_cisco:
                yield "class-default", "", (lambda s, **kw: hc.hash(s, **kw)), (lambda s, hs, **kw: hc.verify(s, hs, **kw))
                return
            sub = hc.using(truncate_error=True)
            yield "using", "", (lambda s, **kw: sub.hash(s, **kw)), (lambda s, hs, **kw: sub.verify(s, hs, **kw))
            c1 = CryptContext(schemes=[name], truncate_error=True, **rounds_kw)
            yield "context-wide", "-ctx", (lambda s, **kw: c1.hash(s, **kw)), (lambda s, hs, **kw: c1.verify(s, hs, **kw))
            c2 = CryptContext(schemes=[name], **{f"{name}__truncate_error": True}, **rounds_kw)
            yield "context-scheme", "-ctx", (lambda s, **kw: c2.hash(s, **kw)), (lambda s, hs, **kw: c2.verify(s, hs, **kw))
            # the policy switched on AFTER construction, over a context that said "off" explicitly
            c3 = CryptContext(schemes=[name], truncate_error=False, **rounds_kw)
            c3.update(truncate_error=True)
            yield "context-updated", "-ctx-upd", (lambda s, **kw: c3.hash(s, **kw)), (lambda s, hs, **kw: c3.verify(s, hs, **kw))
            c4 = CryptContext(schemes=[name], truncate_error=False, **rounds_kw).copy(truncate_error=True)
            yield "context-copied", "-ctx-upd", (lambda s, **kw: c4.hash(s, **kw)), (lambda s, hs, **kw: c4.verify(s, hs, **kw))
            c5 = CryptContext(schemes=[name], **{f"{name}__truncate_error": False}, **rounds_kw).copy(**{f"{name}__truncate_error": True})
            yield "context-scheme-copied", "-ctx-upd", (lambda s, **kw: c5.hash(s, **kw)), (lambda s, hs, **kw: c5.verify(s, hs, **kw))
            # the policy switched on for ONE user category only, through the category-wide (wildcard) option
            c6 = CryptContext(schemes=[name], admin__all__truncate_error=True, **rounds_kw)
            yield "context-category-wildcard", "-ctx-cat", (lambda s, **kw: c6.hash(s, category="admin", **kw)), (lambda s, hs, **kw: c6.verify(s, hs, category="admin", **kw))
            c7 = CryptContext(schemes=[name], **{f"admin__{name}__truncate_error": True}, **rounds_kw)
            yield "context-category-scheme", "-ctx-cat", (lambda s, **kw: c7.hash(s, category="admin", **kw)), (lambda s, hs, **kw: c7.verify(s, hs, category="admin", **kw))

        def modes_off():
            yield "default", "", (lambda s, **kw: hc.hash(s, **kw)), (lambda s, hs, **kw: hc.verify(s, hs, **kw))
            sub = hc.using(truncate_error=False)
            yield "using", "", (lambda s, **kw: sub.hash(s, **kw)), (lambda s, hs, **kw: sub.verify(s, hs, **kw))
            c1 = CryptContext(schemes=[name], **rounds_kw)
            yield "context-default", "-ctx", (lambda s, **kw: c1.hash(s, **kw)), (lambda s, hs, **kw: c1.verify(s, hs, **kw))
            c2 = CryptContext(schemes=[name], truncate_error=False, **rounds_kw)
            yield "context-wide", "-ctx", (lambda s, **kw: c2.hash(s, **kw)), (lambda s, hs, **kw: c2.verify(s, hs, **kw))
            c3 = CryptContext(schemes=[name], truncate_error=True, **rounds_kw)
            c3.update(truncate_error=False)
            yield "context-updated", "-ctx-upd", (lambda s, **kw: c3.hash(s, **kw)), (lambda s, hs, **kw: c3.verify(s, hs, **kw))
            c4 = CryptContext(schemes=[name], truncate_error=True, **rounds_kw).copy(truncate_error=False)
            yield "context-copied", "-ctx-upd", (lambda s, **kw: c4.hash(s, **kw)), (lambda s, hs, **kw: c4.verify(s, hs, **kw))

        for enc in encs:
            kw = dict(ck)
            cfg = dict(ck)
            if name == "lmhash":
                cfg["encoding"] = enc
                if enc != "cp437":
                    kw["encoding"] = enc
            pws = pw_set(L, enc)
            # ---------------- truncate_error on ----------------
            for mode, ksuf, hash_, verify in modes_on():
                for k, n, front, s in pws:
                    eb = s.upper().encode(enc) if name == "lmhash" else s.encode(enc)
                    nb = len(eb)
                    for kind, pw in (("str", s), ("bytes", eb)):
                        g_on.case((name, enc, mode, k, n, front, kind))
                        wit = {"hasher": name, "mode": mode, "truncate_error": True, "limit": L, "encoding": enc, "byte_len": nb, "char_len": len(s), "char_bytes": k, "password": show(pw), "context": kw}
                        o = call(hash_, pw, **kw)
                        if nb > L:
                            want = exc.PasswordSizeError if is_cisco else exc.PasswordTruncateError
                            if o[0] == "exc":
                                counts["truncate_error_raised"] += 1
                                g_on.check(isinstance(o[1], want), f"truncate-exc{ksuf}:{name}:{kind}", f"over-limit password raised {exname(o)} instead of {want.__name__}", dict(wit, error=str(o[1])[:100]))
                                continue
                            # accepted: allowed only if the whole password was used
                            counts["accepted_over_limit"] += 1
                            hs = o[1]
                            cut = eb[:L]
                            bad = None
                            # (no equivalence filter here: the table's canonical forms include the truncation itself;
                            #  every candidate differs from the password in non-NUL, 7-bit-distinct bytes)
                            for what, cand in (("first limit bytes", cut), ("password + 'x'", eb + b"x"), ("password minus last byte", eb[:-1]), ("first limit bytes + 'zz'", cut + b"zz")):
                                v = call(verify, cand, hs, **kw)
                                if v == ("ok", True):
                                    bad = (what, cand)
                                    break
                            g_on.check(bad is None, f"truncate{ksuf}:{name}:{kind}", "truncate_error enabled, yet a password over the limit was hashed silently truncated" + (f" ({bad[0]} verifies)" if bad else ""), dict(wit, hash=hs, verifies=show(bad[1]) if bad else None))
                            continue
                        # at or below the limit
                        if not g_on.check(o[0] == "ok", f"truncate-spurious{ksuf}:{name}:{kind}", f"password within the limit refused with {exname(o)}", dict(wit, error=str(o[1])[:100] if o[0] == "exc" else None)):
                            continue
                        hs = o[1]
                        g_on.check(call(verify, pw, hs, **kw) == ("ok", True), f"verify-own{ksuf}:{name}:{kind}", "password within the limit does not verify", dict(wit, hash=hs))
                        for ext in (b"x", b"7q"):
                            cand = eb + ext
                            if len(cand) > L and not is_cisco:
                                continue  # verify() documents matching on the truncated portion (truncate_verify_reject False)
                            if canon(cand, cfg) & canon(eb, cfg):
                                continue
                            g_on.check(call(verify, cand, hs, **kw) == ("ok", False), f"extension{ksuf}:{name}:{kind}", "an extension of the password verifies", dict(wit, hash=hs, extension=show(cand)))
            if is_cisco:
                continue
            # ---------------- truncate_error off ----------------
            for mode, ksuf, hash_, verify in modes_off():
                light = mode != "default" and quick
                for k, n, front, s in pws:
                    if light and not (n == L + 1):
                        continue
                    eb = s.upper().encode(enc) if name == "lmhash" else s.encode(enc)
                    nb = len(eb)
                    P = eb[:L]
                    for kind, pw in (("str", s), ("bytes", eb)):
                        g_off.case((name, enc, mode, k, n, front, kind))
                        wit = {"hasher": name, "mode": mode, "truncate_error": False, "limit": L, "encoding": enc, "byte_len": nb, "char_bytes": k, "password": show(pw), "context": kw}
                        o = call(hash_, pw, **kw)
                        if not g_off.check(o[0] == "ok", f"off-raises{ksuf}:{name}:{kind}", f"hash() with truncation allowed raised {exname(o)}", dict(wit, error=str(o[1])[:100] if o[0] == "exc" else None)):
                            continue
                        hs = o[1]
                        wit["hash"] = hs
                        g_off.check(call(verify, pw, hs, **kw) == ("ok", True), f"verify-own{ksuf}:{name}:{kind}", "password does not verify", wit)
                        # only the first L bytes matter
                        tails = [b"", b"zzz", b"\xc3\xa9\xff", eb[L:][::-1] + b"Q"]
                        for tail in tails:
                            cand = P + tail
                            if nb < L and tail:
                                continue  # P is the whole password and shorter than the limit: an extension differs
                            v = call(verify, cand, hs, **kw)
                            g_off.check(v == ("ok", True), f"prefix-ignored{ksuf}:{name}:{kind}", "first limit-many bytes + other tail does not verify: bytes past the limit matter (or the limit is not counted in bytes)", dict(wit, candidate=show(cand), outcome=repr(v)[:80]))
                        if nb > L and kind == "bytes":
                            o2 = call(hash_, P, **kw)
                            if g_off.check(o2[0] == "ok", f"off-raises{ksuf}:{name}:prefix", "hash() of the first limit-many bytes raised", dict(wit, error=repr(o2[1])[:100])):
                                v = call(verify, pw, o2[1], **kw)
                                g_off.check(v == ("ok", True), f"verify-truncates{ksuf}:{name}:{kind}", "verify() does not truncate like hash(): long password vs hash of its first limit-many bytes", dict(wit, hash=o2[1], outcome=repr(v)[:80]))
                        if kind == "str" and light:
                            continue
                        # every byte before the limit matters, none after
                        idxs = range(nb) if not quick else sorted({0, 1, L // 2, L - 2, L - 1, L, L + 1, nb - 1} & set(range(nb)))
                        if not quick and nb > 2 * L:
                            idxs = list(range(L + 2)) + list(range(L + 2, nb, 7)) + [nb - 1]
                        for i in idxs:
                            alt = distinct_byte(canon, cfg, eb, i, False) if i < L else eb[:i] + bytes([0x23 if eb[i] != 0x23 else 0x25]) + eb[i + 1 :]
                            if alt is None:
                                continue
                            v = call(verify, alt, hs, **kw)
                            if i < L:
                                g_off.check(v == ("ok", False), f"byte-matters{ksuf}:{name}", "changing a byte before the limit still verifies", dict(wit, position=i, candidate=show(alt), outcome=repr(v)[:80]))
                            else:
                                g_off.check(v == ("ok", True), f"byte-ignored{ksuf}:{name}", "changing a byte past the limit changes the outcome", dict(wit, position=i, candidate=show(alt), outcome=repr(v)[:80]))
    t_trunc = time.time()

    # ------------------------------------------------------------------------------------------------
    g_max = Group(
        "max-password-size",
        "validate_secret",
        "every hasher with a backend + CryptContext(schemes=[hasher]) x lengths 4095, 4096, 4097 (ASCII, str and bytes), cheapest cost: 4097 -> PasswordSizeError from hash(), verify(),"
        " CryptContext.hash/verify/verify_and_update; 4095/4096 accepted and verified unless the format documents a smaller limit; formats without a limit: changing the byte at sampled"
        " positions 0..4095 of a 4096-byte password makes verify False",
    )
    alnum = "abcdefghijklmnopqrstuvwxyz0123456789"
    base_pw = "".join(rng.choice(alnum) for _ in range(4097))
    positions = [0, 1, 7, 8, 15, 16, 55, 56, 63, 64, 65, 71, 72, 73, 127, 128, 255, 256, 1023, 2047, 2048, 4000, 4094, 4095]
    if quick:
        positions = [0, 8, 16, 64, 72, 128, 1024, 2048, 4094, 4095]
    else:
        positions += list(range(97, 4096, 97))
    slow = c01.SLOW
    for name, h in sorted(handlers.items()):
        base = base_of(h)
        hc = cheap(h)
        kw = ctx_kwds(h)
        L = getattr(base, "truncate_size", None)
        canon, _sig = EQUIV.get(base.name, (eq_exact, None))
        try:
            ctx = CryptContext(schemes=[name], **({f"{name}__rounds": base.min_rounds} if "rounds" in h.setting_kwds else {}))
        except Exception as err:  # noqa: BLE001
            ctx = None
            skipped.append(f"{name}: cannot be put in a CryptContext ({type(err).__name__}: {str(err)[:60]})")
        small = hc.hash("ab", **kw)
        for kind in ("str", "bytes"):
            big = base_pw if kind == "str" else base_pw.encode()
            wit = {"hasher": name, "kind": kind, "length": 4097, "context": kw}
            g_max.case((name, kind, 4097))
            o = call(hc.hash, big, **kw)
            g_max.check(o[0] == "exc" and isinstance(o[1], exc.PasswordSizeError), f"oversize-hash:{name}:{kind}", f"hash() of a 4097-{kind} password: {exname(o) or 'accepted'} instead of PasswordSizeError", wit)
            o = call(hc.verify, big, small, **kw)
            g_max.check(o[0] == "exc" and isinstance(o[1], exc.PasswordSizeError), f"oversize-verify:{name}:{kind}", f"verify() of a 4097-{kind} password: {exname(o) or repr(o[1])} instead of PasswordSizeError", wit)
            if ctx is not None:
                for meth in ("hash", "verify", "verify_and_update"):
                    args = (big,) if meth == "hash" else (big, small)
                    o = call(getattr(ctx, meth), *args, **kw)
                    g_max.check(o[0] == "exc" and isinstance(o[1], exc.PasswordSizeError), f"oversize-context-{meth}:{name}:{kind}", f"CryptContext.{meth}() of a 4097-{kind} password: {exname(o) or repr(o[1])[:40]} instead of PasswordSizeError", wit)
            for n in (4095, 4096):
                pw = big[:n]
                g_max.case((name, kind, n))
                wit = {"hasher": name, "kind": kind, "length": n, "context": kw, "password": "base_pw[:%d] (seeded)" % n}
                o = call(hc.hash, pw, **kw)
                if o[0] == "exc":
                    own_limit = L is not None and isinstance(o[1], exc.PasswordSizeError) and base.name in ("cisco_pix", "cisco_asa")
                    g_max.check(own_limit, f"size-refused:{name}:{kind}", f"a {n}-{kind} password was refused with {exname(o)}", dict(wit, error=str(o[1])[:80]))
                    continue
                hs = o[1]
                if name in c01.DISABLED:
                    g_max.check(call(hc.verify, pw, hs, **kw) == ("ok", False), f"disabled:{name}", "disabled hasher verified", wit)
                    continue
                g_max.check(call(hc.verify, pw, hs, **kw) == ("ok", True), f"size-verify:{name}:{kind}", f"a {n}-{kind} password does not verify against its own hash", wit)
                if ctx is not None and n == 4096:
                    o2 = call(ctx.hash, pw, **kw)
                    g_max.check(o2[0] == "ok" and call(ctx.verify, pw, o2[1], **kw) == ("ok", True), f"size-context:{name}:{kind}", "CryptContext refuses or fails to verify a 4096 password", dict(wit, outcome=repr(o2)[:80]))
                if L is not None or n != 4096 or kind != "bytes":
                    continue
                # no limit: every sampled byte matters
                pos = positions if not (quick and name in slow) else positions[::3] + [4095]
                for i in pos:
                    alt = distinct_byte(canon, {**kw}, pw, i, False)
                    if alt is None:
                        continue
                    v = call(hc.verify, alt, hs, **kw)
                    g_max.check(v == ("ok", False), f"byte-matters:{name}", "changing one byte of a 4096-byte password still verifies (hash does not depend on every byte)", dict(wit, position=i, outcome=repr(v)[:60]))
                v = call(hc.verify, pw[:-1], hs, **kw)
                g_max.check(v == ("ok", False), f"byte-matters:{name}:last", "dropping the last byte of a 4096-byte password still verifies", dict(wit, outcome=repr(v)[:60]))
                # short passwords around internal block sizes: the LAST byte matters at every length
                lens = [1, 2, 7, 8, 9, 15, 16, 17, 24, 25, 33, 63, 64, 65] if quick else list(range(1, 131))
                for m in lens:
                    short = pw[:m]
                    oh = call(hc.hash, short, **kw)
                    if oh[0] != "ok":
                        continue
                    g_max.case((name, "short", m))
                    wit2 = {"hasher": name, "length": m, "context": kw, "password": "base_pw[:%d] (seeded)" % m}
                    if m > 1:
                        v = call(hc.verify, short[:-1], oh[1], **kw)
                        g_max.check(v == ("ok", False), f"last-byte-ignored:{name}", "dropping the last byte of a short password still verifies", dict(wit2, outcome=repr(v)[:60]))
                    alt = distinct_byte(canon, {**kw}, short, m - 1, False)
                    if alt is not None:
                        v = call(hc.verify, alt, oh[1], **kw)
                        g_max.check(v == ("ok", False), f"last-byte-ignored:{name}", "changing the last byte of a short password still verifies", dict(wit2, outcome=repr(v)[:60]))
    # one context with several schemes, default first and a deprecated one last
    try:
        multi = CryptContext(schemes=["sha256_crypt", "pbkdf2_sha256", "md5_crypt", "des_crypt"], deprecated=["des_crypt"], sha256_crypt__rounds=1000, pbkdf2_sha256__rounds=1)
    except Exception as err:  # noqa: BLE001
        multi = None
        skipped.append(f"multi-scheme CryptContext: {type(err).__name__}: {err}")
    if multi is not None:
        olds = {sch: multi.handler(sch).hash("ab") for sch in multi.schemes()}
        for kind in ("str", "bytes"):
            big = base_pw if kind == "str" else base_pw.encode()
            g_max.case(("multi-context", kind, 4097))
            o = call(multi.hash, big)
            g_max.check(o[0] == "exc" and isinstance(o[1], exc.PasswordSizeError), f"oversize-context-hash:multi:{kind}", f"multi-scheme CryptContext.hash() of a 4097-{kind} password: {exname(o) or 'accepted'}", {"kind": kind})
            for sch, old in olds.items():
                for meth in ("verify", "verify_and_update"):
                    o = call(getattr(multi, meth), big, old)
                    g_max.check(o[0] == "exc" and isinstance(o[1], exc.PasswordSizeError), f"oversize-context-{meth}:multi:{sch}:{kind}", f"multi-scheme CryptContext.{meth}() of a 4097-{kind} password against a {sch} hash: {exname(o) or repr(o[1])[:40]}", {"kind": kind, "scheme": sch, "hash": old})
            g_max.case(("multi-context", kind, 4096))
            o = call(multi.hash, big[:4096])
            g_max.check(o[0] == "ok" and call(multi.verify, big[:4096], o[1]) == ("ok", True), f"size-context:multi:{kind}", "multi-scheme CryptContext refuses or fails to verify a 4096 password", {"kind": kind, "outcome": repr(o)[:80]})
    t_max = time.time()

    # ------------------------------------------------------------------------------------------------
    g_nul = Group(
        "nul-refusal",
        "NullPasswordError sites (_raw_des_crypt, _raw_bsdi_crypt, _raw_md5_crypt, _raw_sha2_crypt, sha1_crypt, safe_crypt, bcrypt._norm_digest_args)",
        "every hasher x 17-char password (shorter for small size limits) with NUL inserted at every position 0..16, str and bytes: crypt()-compatible formats"
        f" ({sorted(CRYPT_COMPAT)} + wrappers, every available backend) refuse with a ValueError subclass on hash and verify; no hasher accepts it as the prefix before the NUL",
    )
    stem = "Zk4mq9Xw2Lp7Rt5Yb"  # 17 distinct characters
    backends_done = []
    for name, h in sorted(handlers.items()):
        if name in c01.DISABLED:
            continue
        base = base_of(h)
        must = base.name in CRYPT_COMPAT or name in CRYPT_COMPAT_BY_NAME
        L = getattr(base, "truncate_size", None)
        canon, _sig = EQUIV.get(base.name, (eq_exact, None))
        kw = ctx_kwds(h)
        cfg = dict(kw)
        real = base if name not in CRYPT_COMPAT_BY_NAME else registry.get_crypt_handler("des_crypt")
        backends = [None]
        # every available backend: quick tier for the formats themselves, thorough tier for their wrappers too
        if must and getattr(real, "backends", None) and (name in CRYPT_COMPAT or not quick):
            backends = [b for b in real.backends if call(real.has_backend, b) == ("ok", True)] or [None]
        orig = call(real.get_backend)[1] if backends != [None] else None
        try:
            for be in backends:
                if be is not None:
                    try:
                        real.set_backend(be)
                    except Exception as err:  # noqa: BLE001
                        skipped.append(f"{name}: backend {be} not loadable ({type(err).__name__})")
                        continue
                    backends_done.append(f"{name}/{be}")
                hc = cheap(h)
                s0 = stem if not (L and base.name in ("cisco_pix", "cisco_asa")) else stem[: L - 2]
                for i in range(0, min(16, len(s0) - 1) + 1):
                    s = s0[:i] + "\0" + s0[i:]
                    for kind, pw in (("str", s), ("bytes", s.encode())):
                        g_nul.case((name, be, i, kind))
                        wit = {"hasher": name, "backend": be, "nul_position": i, "kind": kind, "password": repr(pw), "context": kw}
                        o = call(hc.hash, pw, **kw)
                        if o[0] == "exc":
                            g_nul.check(isinstance(o[1], ValueError), f"nul-exc:{name}", f"NUL password raised {exname(o)} (not a ValueError subclass)", dict(wit, error=str(o[1])[:80]))
                        else:
                            g_nul.check(not must, f"nul-accepted:{name}" + (f":{be}" if be else ""), "crypt()-compatible format hashed a password containing NUL", dict(wit, hash=o[1]))
                            hs = o[1]
                            # accepted: must not have ended the password at the NUL
                            for cand in (pw[:i], pw[: i + 1]):
                                if canon(cand, cfg) & canon(pw, cfg):
                                    continue  # NUL padding / truncation limit: same password by the documented rules
                                v = call(hc.verify, cand, hs, **kw)
                                g_nul.check(v != ("ok", True), f"nul-truncates:{name}", "password was cut at the NUL: the prefix before it verifies", dict(wit, hash=hs, prefix=repr(cand)))
                        # verify side: the password with a NUL against the hash of its prefix
                        if not i:
                            continue
                        oh = call(hc.hash, pw[:i], **kw)
                        if oh[0] == "ok" and not (canon(pw[:i], cfg) & canon(pw, cfg)):
                            v = call(hc.verify, pw, oh[1], **kw)
                            if v[0] == "exc":
                                g_nul.check(isinstance(v[1], ValueError), f"nul-exc:{name}:verify", f"verify() of a NUL password raised {exname(v)}", wit)
                            else:
                                g_nul.check(v[1] is False, f"nul-truncates:{name}:verify", "verify() cut the password at the NUL: matches the hash of the prefix", dict(wit, hash=oh[1]))
                                g_nul.check(not must, f"nul-accepted:{name}:verify", "crypt()-compatible format verified (as False) a NUL password instead of refusing it", wit)
        finally:
            if orig is not None:
                try:
                    real.set_backend(orig)
                except Exception as err:  # noqa: BLE001
                    skipped.append(f"{name}: could not restore backend {orig}: {err}")
    t_nul = time.time()

    now = time.time()
    # Group.out() reports now - t0
    g_on.t0 = now - (t_trunc - t_start) * (g_on.cases / max(1, g_on.cases + g_off.cases))
    g_off.t0 = now - (t_trunc - t_start) * (g_off.cases / max(1, g_on.cases + g_off.cases))
    g_max.t0 = now - (t_max - t_trunc)
    g_nul.t0 = now - (t_nul - t_max)
    host = {
        "truncating_hashers": {n: base_of(h).truncate_size for n, h in sorted(trunc.items())},
        "over_limit_outcomes_with_truncate_error": counts,
        "nul_backends": backends_done,
        "seconds": round(now - t_start, 1),
    }
    return [g_on, g_off, g_max, g_nul], skipped, host


if __name__ == "__main__":
    main(build)
