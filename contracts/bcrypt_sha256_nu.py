"""bcrypt_sha256._calc_needs_update: a hash is flagged for its wrapper VERSION exactly when it is older than the version the
hasher was CONFIGURED with (type(self).version -- bcrypt_sha256.using(version=1) makes and keeps v1 hashes), never by
comparison with the newest version the library knows; everything else is the inherited cost / ident check."""
import z3

from pyvc.contract import Const, Contract, Int, Obj
from pyvc.values import SBool, SDict, SObj, SStub

B = "passlib/handlers/bcrypt.py"


def _setup(it, args):
    cls = SObj("configured bcrypt_sha256 subclass", is_class=True, cls=(B, "bcrypt_sha256"), fields={"version": Int(1, 2).make(it, "cls.version")})
    args["self"].fields["__class__"] = cls
    return {"cls_": cls, "inherited": SBool(z3.Bool("inherited _calc_needs_update"))}


def contract(prop):
    from pyvc.replay import py_replay
    return Contract(
        "bcrypt_sha256._calc_needs_update", f"{B}::bcrypt_sha256._calc_needs_update",
        params={"self": Obj(cls=(B, "bcrypt_sha256"), fields={"version": Int(1, 2)}), "kwds": Const(SDict())},
        setup=_setup,
        globals={"super._calc_needs_update": SStub(lambda it, a, k: SBool(z3.Bool("inherited _calc_needs_update")), "_BcryptCommon._calc_needs_update", trusted="inherited check (ident / cost / padding): free boolean")},
        ensures=[("flagged exactly when the hash's wrapper version is older than the CONFIGURED one, or the inherited check flags it",
                  "result == (self.version < cls_.version or inherited)")],
        replay=py_replay("from passlib.hash import bcrypt_sha256", "h = bcrypt_sha256.using(version=V['version'], rounds=4); r = h.needs_update(h.hash('pw'))", "exc is None and r is False", {"version": 1},
                         search=lambda v: [dict(v, version=x) for x in (1, 2)]),
        prop=prop, descr="hash version 1..2, configured version 1..2; inherited check abstract",
    )


MUTANTS = [
    ("bcrypt_sha256: update check compares with the base class's version", B, "        if self.version < type(self).version:", "        if self.version < bcrypt_sha256.version:", "refute", "bcrypt_sha256._calc_needs_update"),
    ("bcrypt_sha256: update check compares with the newest known version", B, "        if self.version < type(self).version:", "        if self.version < max(self._supported_versions):", "refute", "bcrypt_sha256._calc_needs_update"),
]
