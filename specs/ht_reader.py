"""Independent reader of htpasswd (2 fields) / htdigest (3 fields) text, as Apache reads it: one record per line,
'#' comments and blank lines ignored, fields separated by ':'.  Written from the file format, not from passlib."""


def read_lines(data, nfields):
    """[('skip', raw line without terminator) | ('rec', key fields tuple, hash)] in file order; ValueError if malformed"""
    out = []
    for lineno, raw in enumerate(data.split(b"\n"), 1):
        line = raw.rstrip(b"\r")
        if not line.strip() or line.lstrip().startswith(b"#"):
            out.append(("skip", line))
            continue
        fields = line.rstrip().split(b":")
        if len(fields) != nfields:
            raise ValueError("line %d: %d fields, wanted %d" % (lineno, len(fields), nfields))
        out.append(("rec", tuple(fields[:-1]), fields[-1]))
    if out and out[-1] == ("skip", b""):
        out.pop()  # text after the final newline is not a line
    return out


def read_records(data, nfields):
    """every (key fields, hash) record of the text, in order, duplicates included"""
    return [(it[1], it[2]) for it in read_lines(data, nfields) if it[0] == "rec"]
