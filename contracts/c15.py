"""C15 -- a TOTP configuration survives every serialisation."""
import z3

from pyvc.contract import Bool, Const, Contract, Int, NoneT, Obj, Opt, Str, Union
from pyvc.runner import Bounded
from pyvc.values import SBool, SDict, SObj, SStr, SStub

LEVEL = "proof"
T = "passlib/totp.py"
EXPLANATION = (
    "Field preservation of the elision logic, with the class-level defaults (as set by TOTP.using()) symbolic: "
    "to_dict / _to_uri_params are verified against 'what a loader of the same class reconstructs': for each of digits, "
    "alg, period the value present in the output, or else the class default, must equal the instance value; key, label "
    "and version are always carried; _adapt_dict_kwds refuses missing/unsupported versions and a missing key with "
    "ValueError. The obligations for digits/alg/period are refuted in exactly the witness class of the recorded known "
    "finding (instance value equal to the literal 6/sha1/30 under a different class default), so the run is reported at "
    "level 'other'. URI quoting of hostile labels and the wallet are covered by the bounded stand-in."
)
ASSUMPTIONS = [
    "loading goes through the same class (cls(**kwds) fills missing fields from type(self) defaults: TOTP.__init__)",
    "urllib quoting / json are inverse pairs (bounded stand-in)",
]

ALG = Union(Const("sha1"), Const("sha256"), Const("sha512"))


def _setup(it, args):
    cls = SObj("TOTPclass", is_class=True, fields={"digits": Int(6, 10).make(it, "cls.digits"), "alg": ALG.make(it, "cls.alg"), "period": Int(lo=1).make(it, "cls.period"),
                                                   "issuer": Opt(Str()).make(it, "cls.issuer"), "json_version": 1, "min_json_version": 1})
    self = args["self"]
    self.fields["__class__"] = cls
    self.fields["json_version"] = 1
    self.fields["wallet"] = None
    self.fields["base32_key"] = SStr(z3.String("base32_key"), "str")
    return {"cls_": cls}


SELF = Obj(cls=(T, "TOTP"), fields={"digits": Int(6, 10), "alg": ALG, "period": Int(lo=1), "label": Opt(Str()), "issuer": Opt(Str())})

ELISION = "[totp:class-default-elision]"

to_dict = Contract(
    "TOTP.to_dict", f"{T}::TOTP.to_dict",
    params={"self": SELF, "encrypt": Const(None)},
    setup=_setup,
    ensures=[
        ("digits survive (outside the recorded witness class)", "implies(not (self.digits == 6 and cls_.digits != 6), result.get('digits', cls_.digits) == self.digits)"),
        ("algorithm survives (outside the recorded witness class)", "implies(not (self.alg == 'sha1' and cls_.alg != 'sha1'), result.get('alg', cls_.alg) == self.alg)"),
        ("period survives (outside the recorded witness class)", "implies(not (self.period == 30 and cls_.period != 30), result.get('period', cls_.period) == self.period)"),
        (f"digits survive when the instance value is the literal 6 under another class default {ELISION}", "implies(self.digits == 6 and cls_.digits != 6, result.get('digits', cls_.digits) == self.digits)"),
        (f"algorithm survives when the instance value is the literal sha1 under another class default {ELISION}", "implies(self.alg == 'sha1' and cls_.alg != 'sha1', result.get('alg', cls_.alg) == self.alg)"),
        (f"period survives when the instance value is the literal 30 under another class default {ELISION}", "implies(self.period == 30 and cls_.period != 30, result.get('period', cls_.period) == self.period)"),
        ("the key is always carried", "result['key'] == self.base32_key"),
        ("type and version are always carried", "result['type'] == 'totp' and result['v'] == 1"),
        ("a non-empty label is carried", "implies(self.label is not None and len(self.label) > 0, result.get('label') == self.label)"),
        ("a non-empty issuer survives (carried unless it equals the class default)", "implies(self.issuer is not None and len(self.issuer) > 0, result.get('issuer', cls_.issuer) == self.issuer)"),
    ],
    descr="instance fields and class defaults symbolic (any using() configuration)",
)


# ---- the caller's explicit choice of key form is honoured: encrypt=False gives the plain key even when the application
#      wallet holds secrets (only encrypt=None defers to the wallet), encrypt=True the encrypted one ----
def _setup_wallet(it, args):
    out = _setup(it, args)
    args["self"].fields["wallet"] = SObj("wallet", fields={"has_secrets": True})
    args["self"].fields["encrypted_key"] = SStr(z3.String("encrypted_key"), "str")
    return out


to_dict_plain = Contract(
    "TOTP.to_dict[encrypt=False, wallet holds secrets]", f"{T}::TOTP.to_dict",
    params={"self": SELF, "encrypt": Const(False)},
    setup=_setup_wallet,
    ensures=[("an explicit encrypt=False serialises the plain key although a wallet is configured", "result['key'] == self.base32_key and 'enckey' not in result")],
    descr="wallet with secrets present; instance fields and class defaults symbolic",
)
to_dict_default = Contract(
    "TOTP.to_dict[encrypt=None, wallet holds secrets]", f"{T}::TOTP.to_dict",
    params={"self": SELF, "encrypt": Const(None)},
    setup=_setup_wallet,
    ensures=[("encrypt=None defers to the wallet: the key is serialised encrypted and never in the clear", "result['enckey'] == self.encrypted_key and 'key' not in result")],
    descr="wallet with secrets present; instance fields and class defaults symbolic",
)


def _uri_param(name, default_expr, convert=lambda it, v: v, outside=None, inside=None):
    def ens(it, env):
        guard = None
        if outside is not None:
            guard = z3.Not(it.to_zbool(it.spec_bool(outside, env)))
        if inside is not None:
            guard = it.to_zbool(it.spec_bool(inside, env))
        body = it.to_zbool(it.truth(_ens(it, env)))
        return z3.Implies(guard, body) if guard is not None else body

    def _ens(it, env):
        res = it.resolve(env.lookup("result"))
        self = env.lookup("self")
        found = None
        for item in res.items:
            k, v = it.unpack(item, 2)
            if k == name:
                found = v
        cls = env.lookup("cls_")
        want = self.fields[{"algorithm": "alg"}.get(name, name)]
        if found is None:
            return it.cmp_vals("==", cls.fields[{"algorithm": "alg"}.get(name, name)], want)
        return convert(it, found, want)

    return ens


uri_params = Contract(
    "TOTP._to_uri_params", f"{T}::TOTP._to_uri_params",
    params={"self": SELF},
    setup=_setup,
    ensures=[
        ("digits survive the URI parameters (outside the recorded witness class)", _uri_param("digits", None, lambda it, f, w: it.cmp_vals("==", f, it.make_str(w)), outside="self.digits == 6 and cls_.digits != 6")),
        ("period survives the URI parameters (outside the recorded witness class)", _uri_param("period", None, lambda it, f, w: it.cmp_vals("==", f, it.make_str(w)), outside="self.period == 30 and cls_.period != 30")),
        ("algorithm survives the URI parameters (outside the recorded witness class)", _uri_param("algorithm", None, lambda it, f, w: it.cmp_vals("==", f, it.call_value(it.method_of(it.resolve(w), "upper"), [], {})), outside="self.alg == 'sha1' and cls_.alg != 'sha1'")),
        (f"digits survive the URI parameters in the witness class {ELISION}", _uri_param("digits", None, lambda it, f, w: it.cmp_vals("==", f, it.make_str(w)), inside="self.digits == 6 and cls_.digits != 6")),
        (f"period survives the URI parameters in the witness class {ELISION}", _uri_param("period", None, lambda it, f, w: it.cmp_vals("==", f, it.make_str(w)), inside="self.period == 30 and cls_.period != 30")),
        (f"algorithm survives the URI parameters in the witness class {ELISION}", _uri_param("algorithm", None, lambda it, f, w: it.cmp_vals("==", f, it.call_value(it.method_of(it.resolve(w), "upper"), [], {})), inside="self.alg == 'sha1' and cls_.alg != 'sha1'")),
        ("the secret is always carried", lambda it, env: it.cmp_vals("==", it.unpack(it.resolve(env.lookup("result")).items[0], 2)[1], env.lookup("self").fields["base32_key"])),
    ],
    descr="instance fields and class defaults symbolic",
)


def _adapt_setup(variant):
    def setup(it, args):
        d = {"key": SStr(z3.String("key"), "str")} if variant != "nokey" else {}
        if variant == "enckey":
            d = {"enckey": SDict({"c": 1})}
        if variant != "nover":
            d["v"] = Int().make(it, "v")
        args["kwds"] = SDict(d)
        return {"v": d.get("v")}

    return setup


CONTRACTS = [to_dict, to_dict_plain, to_dict_default, uri_params]
for _variant, _raises, _ens in (
    ("ok", {"ValueError": "v is not None and (v == 0 or v < 1 or v > 1)"}, [("only supported versions are accepted", "v == 1"), ("the key is handed to the constructor", "result['key'] is not None")]),
    ("nover", {"ValueError": None}, [("a missing version is refused", "False")]),
    ("nokey", {"ValueError": None}, [("a missing key is refused", "False")]),
):
    CONTRACTS.append(Contract(
        f"TOTP._adapt_dict_kwds[{_variant}]", f"{T}::TOTP._adapt_dict_kwds",
        params={"cls": Obj(cls=(T, "TOTP"), is_class=True, fields={"json_version": 1, "min_json_version": 1}), "type": Const("totp"), "kwds": Const(None)},
        setup=_adapt_setup(_variant),
        raises=_raises,
        ensures=_ens,
        descr=f"dictionary variant: {_variant}",
    ))

from contracts import c15_uri  # noqa: E402

CONTRACTS += c15_uri.CONTRACTS
from contracts import misc_quick as _mq  # noqa: E402

CONTRACTS += [_mq.adapt_uri, _mq.otp_type]
from contracts import c13 as _c13  # noqa: E402

CONTRACTS += [c for c in _c13.CONTRACTS if c.id == "TOTP.key (setter)"]  # same key => same codes: nothing derived from an old key survives

BOUNDED = [Bounded("c15", "harness/c15.py", descr="round trips through uri/json/dict over hostile labels and class defaults; corrupted sources", timeout=900)]

MUTANTS = [
    ("to_dict: an explicit encrypt=False defers to the wallet", T, "        if encrypt is None:\n            wallet = self.wallet", "        if not encrypt:\n            wallet = self.wallet", "refute", "encrypt=False"),
    ("to_dict drops the label", T, "        if self.label:\n            state[\"label\"] = self.label\n", "", "refute"),
    ("to_dict writes the period under the wrong key", T, "            state[\"period\"] = self.period\n", "            state[\"perod\"] = self.period\n", "refute"),
    ("_to_uri_params omits non-default digits", T, "        if self.digits != 6:\n            args.append((\"digits\", str(self.digits)))\n", "        if self.digits > 6:\n            args.append((\"digits\", str(self.digits + 0)))\n", "hold"),
    ("_to_uri_params renders the period as digits", T, "            args.append((\"period\", str(self.period)))", "            args.append((\"period\", str(self.digits)))", "refute"),
    ("_adapt_dict_kwds accepts a newer version", T, "        if not ver or ver < cls.min_json_version or ver > cls.json_version:", "        if not ver or ver < cls.min_json_version:", "refute"),
    ("_adapt_dict_kwds accepts a missing key", T, "        elif \"key\" not in kwds:\n            raise cls._dict_parse_error(\"missing 'enckey' / 'key'\")", "        elif \"key\" not in kwds:\n            pass", "refute"),
]
MUTANTS += c15_uri.MUTANTS
