"""C11 -- the built-in cryptographic primitives equal their standards."""
import z3

from pyvc.contract import Const, Contract, Int, Lemma, Loop, Obj
from pyvc.runner import Bounded, Finite
from pyvc.values import SInt, SList, SModule, SObj, SStub
from specs import rfc1320, rfc7914

LEVEL = "proof"
EXPLANATION = (
    "MD4 compression (passlib/crypto/_md4.py::md4._process) is verified step by step against RFC 1320 (ghost lock-step, "
    "48 cut points, 64-bit vectors with no-overflow side obligations); Salsa20/8, DES key expansion, scrypt parameter "
    "validation, HMAC pads and PBKDF1 are verified from their real source; DES rounds, bcrypt core, ROMix, PBKDF2 and "
    "SASLprep are covered by the bounded stand-in against independent references."
)
ASSUMPTIONS = [
    "struct.unpack('<16I') yields 16 integers in [0, 2^32) (little-endian words of the block)",
    "machine arithmetic: Python ints modelled as 64-bit vectors in the BV-mode contracts, every + - * << carries a no-overflow side obligation",
]
M = "passlib/crypto/_md4.py"


# ---- MD4 ------------------------------------------------------------------------------------------
def _md4_setup(it, args):
    st = []
    for k in range(4):
        v = it.sym_int(f"state{k}")
        it.run.assume(z3.And(z3.ULE(v.e, z3.BitVecVal(2**32 - 1, 64))))
        st.append(v)
    lst = SList(st)
    args["self"].fields["_state"] = lst
    it.run.ghost["orig"] = [z3.Extract(31, 0, v.e) for v in st]
    it.run.ghost["regs"] = list(it.run.ghost["orig"])
    it.run.ghost["state_list"] = None
    return None


def _unpack(it, args, kwargs):
    fmt = args[0]
    if fmt != "<16I":
        from pyvc.values import Unsupported
        raise Unsupported(f"struct.unpack({fmt!r})")
    xs = []
    for k in range(16):
        v = it.sym_int(f"X{k}")
        it.run.assume(z3.ULE(v.e, z3.BitVecVal(2**32 - 1, 64)))
        xs.append(v)
    it.run.ghost["X"] = [z3.Extract(31, 0, v.e) for v in xs]
    return tuple(xs)


def _md4_cut(rnd):
    def cut(it, env, j):
        g = it.run.ghost
        g["steps"] = g.get("steps", 0) + 1
        g["regs"] = rfc1320.step(g["regs"], g["X"], rnd, j)
        state = env.lookup("state")
        for i in range(4):
            it.run.oblige("ghost-lock-step", it.to_z3(state.items[i], "int") == z3.ZeroExt(32, g["regs"][i]), f"MD4 round {rnd + 1} step {j}: register {i} == RFC 1320", it.lineno)
        # cut point: continue from fresh symbols
        fresh = [z3.BitVec(it.run.fresh(f"r{rnd}s{j}_{i}"), 32) for i in range(4)]
        g["regs"] = fresh
        for i in range(4):
            state.items[i] = SInt(z3.ZeroExt(32, fresh[i]))

    return cut


def _md4_post(it, env):
    g = it.run.ghost
    self = env.lookup("self")
    final = self.fields["_state"]
    if g.get("steps") != 48:
        return False  # the RFC has 3 rounds of 16 operations
    return z3.And(*[it.to_z3(final.items[i], "int") == z3.ZeroExt(32, g["orig"][i] + g["regs"][i]) for i in range(4)])


CONTRACTS = [
    Contract(
        "md4._process", f"{M}::md4._process",
        params={"self": Obj(cls=(M, "md4")), "block": Const(b"")},
        setup=_md4_setup,
        ints="bv64",
        globals={"struct": SModule("struct", {"unpack": SStub(_unpack, "struct.unpack", trusted="struct '<16I'")})},
        loops={
            "_process#0": Loop(ghost_step=_md4_cut(0)),
            "_process#1": Loop(ghost_step=_md4_cut(1)),
            "_process#2": Loop(ghost_step=_md4_cut(2)),
        },
        ensures=[("state' == state + compress(state, X) (mod 2^32), every register", _md4_post)],
        max_depth=4,
        descr="all 128-bit states, all 512-bit blocks",
    ),
]

# ---- Salsa20/8 -----------------------------------------------------------------------------------
SALSA = "passlib/crypto/scrypt/_salsa.py"


def _salsa_setup(it, args):
    xs = []
    for k in range(16):
        v = it.sym_int(f"in{k}")
        it.run.assume(z3.ULE(v.e, z3.BitVecVal(2**32 - 1, 64)))
        xs.append(v)
    args["input"] = tuple(xs)
    it.run.ghost["b"] = [z3.Extract(31, 0, v.e) for v in xs]
    it.run.ghost["x"] = list(it.run.ghost["b"])
    return None


def _salsa_cut(it, env, k):
    g = it.run.ghost
    g["rounds"] = g.get("rounds", 0) + 1
    g["x"] = rfc7914.double_round(g["x"])
    for i in range(16):
        it.run.oblige("ghost-lock-step", it.to_z3(env.lookup(f"v{i}"), "int") == z3.ZeroExt(32, g["x"][i]), f"Salsa20/8 double round {k}: word {i} == RFC 7914", it.lineno)
    fresh = [z3.BitVec(it.run.fresh(f"dr{k}_{i}"), 32) for i in range(16)]
    g["x"] = fresh
    for i in range(16):
        env.set(f"v{i}", SInt(z3.ZeroExt(32, fresh[i])))


def _salsa_post(it, env):
    g = it.run.ghost
    res = env.lookup("result")
    if g.get("rounds") != 4:
        return False  # Salsa20/8 = 4 double rounds
    return z3.And(*[it.to_z3(res[i], "int") == z3.ZeroExt(32, g["b"][i] + g["x"][i]) for i in range(16)])


CONTRACTS.append(Contract(
    "salsa20", f"{SALSA}::salsa20",
    params={"input": Const(None)},
    setup=_salsa_setup,
    ints="bv64",
    loops={"salsa20#0": Loop(unroll=8, ghost_step=_salsa_cut)},
    ensures=[("result[i] == (input[i] + doubleround^4(input)[i]) mod 2^32", _salsa_post), ("sixteen words", "len(result) == 16")],
    descr="all 16-word inputs",
))

# ---- DES key expansion (7 <-> 8 bytes) ----------------------------------------------------------------
DES = "passlib/crypto/des.py"


def _shrink_spec(it, env):
    k = it.to_z3(env.lookup("key"), "int")
    want = sum(((k / 2 ** (8 * j + 1)) % 128) * 2 ** (7 * j) for j in range(8))
    return it.to_z3(env.lookup("result"), "int") == want


def _unpack56(it, args, kwargs):
    src = it.resolve(args[0])
    items = [it.to_z3(x, "int") for x in src.items]
    return SInt(sum(b * 2 ** (8 * (6 - j)) for j, b in enumerate(items)))


def _expand_spec(it, env):
    src = it.resolve(env.lookup("key"))
    k = sum(it.to_z3(b, "int") * 2 ** (8 * (6 - j)) for j, b in enumerate(src.items))
    want = [((k / 2 ** (49 - 7 * j)) % 128) * 2 for j in range(8)]  # 7 key bits, most significant group first, parity bit 0
    return it.cmp_vals("==", env.lookup("result"), it.make_bytes(tuple(SInt(w) for w in want)))


from pyvc.contract import BytesOfLen

CONTRACTS.append(Contract(
    "shrink_des_key[int]", f"{DES}::shrink_des_key",
    params={"key": Int(-(2**100), 2**100)},
    ints="bv128",
    raises_iff={"ValueError": f"key < 0 or key > {2**64 - 1}"},
    ensures=[("result packs bits 1..7 of every byte, byte 0 least significant", _shrink_spec), ("56-bit result", f"0 <= result <= {2**56 - 1}")],
    loops={"shrink_des_key#0": Loop(unroll=8)},
    descr="all integers of magnitude < 2^100 (128-bit vectors; no-overflow side obligations)",
))
CONTRACTS.append(Contract(
    "expand_des_key[bytes]", f"{DES}::expand_des_key",
    params={"key": BytesOfLen(7)},
    globals={"_unpack56": SStub(_unpack56, "_unpack56", trusted="struct big-endian 56-bit")},
    ensures=[("byte j carries key bits 55-7j .. 49-7j in its upper 7 bits, parity bit 0", _expand_spec)],
    descr="all 7-byte keys",
))
for _n in (6, 8):
    CONTRACTS.append(Contract(
        f"expand_des_key[bytes len={_n}]", f"{DES}::expand_des_key",
        params={"key": BytesOfLen(_n)},
        raises={"ValueError": None},
        ensures=[("wrong length is refused", "False")],
        descr="wrong key size",
    ))


def _des_key_roundtrip():
    k = z3.BitVec("k", 64)
    exp = [z3.ZeroExt(0, ((k >> (49 - 7 * j)) & 0x7F) << 1) for j in range(8)]  # the expand contract, as bytes
    as_int = sum(exp[j] << (8 * (7 - j)) for j in range(8))                       # _unpack64 of those bytes
    shr = sum((((as_int >> (8 * j + 1)) & 0x7F) << (7 * j)) for j in range(8))     # the shrink contract
    return [("shrink_des_key(expand_des_key(k)) == k for every 56-bit k", [z3.ULE(k, z3.BitVecVal(2**56 - 1, 64))], shr == k)]


LEMMAS = [Lemma("des-key-roundtrip", _des_key_roundtrip, "7<->8 byte DES key conversion is lossless (over the two contracts)")]

# ---- scrypt parameter validation -----------------------------------------------------------------------
SC = "passlib/crypto/scrypt/__init__.py"
_POW2 = " or ".join(f"n == {2**k}" for k in range(1, 62))
CONTRACTS.append(Contract(
    "scrypt.validate", f"{SC}::validate",
    params={"n": Int(-(2**61), 2**61), "r": Int(-(2**31), 2**31), "p": Int(-(2**31), 2**31)},
    ints="bv64",
    raises_iff={"ValueError": f"r < 1 or p < 1 or r * p > {2**30 - 1} or n < 2 or not ({_POW2})"},
    ensures=[("accepts", "result is True")],
    descr="n up to 2^61, r/p up to 2^31 (64-bit vectors, multiplication proved not to overflow)",
))

BOUNDED = [Bounded("c11", "harness/c11.py", descr="DES / bcrypt core / MD4 splits / scrypt / HMAC / PBKDF / SASLprep vs independent references", timeout=900)]

MUTANTS = [
    ("md4: wrong shift in round 2 table", M, "        [3, 0, 1, 2, 4, 5],\n", "        [3, 0, 1, 2, 4, 7],\n", "refute"),
    ("md4: round 3 constant", M, "0x6ED9EBA1", "0x6ED9EBA2", "refute"),
    ("md4: G majority broken", M, "    return (x & y) | (x & z) | (y & z)\n", "    return (x & y) | (x & z) | (y ^ z)\n", "refute"),
    ("md4: rotate uses 31 - s", M, "            state[a] = ((t << s) & MASK_32) + (t >> (32 - s))\n\n        # round 2", "            state[a] = ((t << s) & MASK_32) + (t >> (31 - s))\n\n        # round 2", "refute"),
    ("md4: add-back skips a register", M, "        for i in range(4):\n            orig[i] = (orig[i] + state[i]) & MASK_32", "        for i in range(3):\n            orig[i] = (orig[i] + state[i]) & MASK_32", "refute"),
    ("salsa: rotation constant", SALSA, "        v8 ^= ((t & 0x007FFFFF) << 9) | (t >> 23)\n\n        # salsa op 2:", "        v8 ^= ((t & 0x007FFFFF) << 9) | (t >> 22)\n\n        # salsa op 2:", "refute"),
    ("salsa: wrong operand", SALSA, "        t = (v13 + v9) & 0xFFFFFFFF\n        v1 ^=", "        t = (v13 + v5) & 0xFFFFFFFF\n        v1 ^=", "refute"),
    ("salsa: three double rounds", SALSA, "    while i < 4:\n", "    while i < 3:\n", "refute"),
    ("salsa: final add misses mask", SALSA, "    b7 = (b7 + v7) & 0xFFFFFFFF\n", "    b7 = (b7 + v7) & 0xFFFFFFF\n", "refute"),
    ("md4: round 1 table row dropped", M, "        [3, 0, 1, 2, 13, 7],\n", "", "refute"),
    ("shrink_des_key: drops parity from the wrong end", DES, "    key >>= 1\n    result = 0\n", "    key >>= 0\n    result = 0\n", "refute"),
    ("shrink_des_key: 6 bit groups", DES, "        result |= (key & 0x7F) << offset\n", "        result |= (key & 0x3F) << offset\n", "refute"),
    ("expand_des_key: shift table start", DES, "_EXPAND_ITER = range(49, -7, -7)\n", "_EXPAND_ITER = range(48, -8, -7)\n", "refute"),
    ("scrypt.validate: accepts n == 1", SC, "    if n < 2 or n & (n - 1):\n", "    if n < 1 or n & (n - 1):\n", "refute"),
    ("scrypt.validate: r*p bound off by one", SC, "    if r * p > MAX_RP:\n", "    if r * p > MAX_RP + 1:\n", "refute"),
    ("md4: harmless F rewrite", M, "    return (x & y) | ((~x) & z)\n", "    return ((~x) & z) | (y & x)\n", "hold"),
]
