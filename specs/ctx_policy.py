"""CryptContext policy oracle (C04, C10): a pure function of a configuration dictionary.

Written from the property statement and the passlib documentation (docs/lib/passlib.context.rst,
the per-hash format pages and docs/modular_crypt_format.rst); it never imports passlib and never looks
at a context object.  Plain Python, no solver: used by the bounded stand-ins under /venv/bin/python.

Configuration dictionary
    {"schemes": [name, ...],                    order matters (first claimant wins)
     "default": name | absent,
     "deprecated": [name, ...] | "auto" | absent,
     "all": {"vary_rounds": v},                 the documented 'all' pseudo scheme (optional)
     "options": {scheme: {min_rounds, max_rounds, default_rounds, vary_rounds, rounds}},
     "categories": {cat: {"default":..., "deprecated":..., "all": {...}, "options": {...}}}}
Numbers may be given as decimal strings, vary_rounds also as "NN%" or "0.NN" strings.

Scheme facts (the public informational attributes of the *unconfigured* hasher, password_hash_api.rst)
are passed in: facts[scheme] = None (no cost parameter) or
    {"hmin": int, "hmax": int, "default": int, "cost": "linear" | "log2"}.

Documented rules transcribed here
  * identify(): schemes are tried first to last, the first one that claims the hash wins.
  * default: the category's `default`, else the global `default`, else the first scheme that is not
    deprecated for that category.
  * deprecated: the category's list if it has one, else the global list; ["auto"] means every scheme
    except the category's default.  A default scheme may not be deprecated (ValueError).
  * scheme options: category values override values without a category prefix, explicit per-scheme values
    override the 'all' pseudo scheme (precedence, weakest first: all, <cat>__all, scheme, <cat>__scheme).
  * rounds: `rounds` sets min, max and default at once unless they are given too; min/max beyond the
    hasher's hard limits are clipped to them (with a warning); max < min or a default outside min..max is a
    ValueError; the hasher's own default is clipped into the window; vary_rounds (int: +/- v, float: +/- that
    proportion of the default) varies the cost of new hashes inside the window.
  * needs_update: scheme deprecated for the category, or cost outside the window, or the scheme itself flags
    the hash (bsdi_crypt: even rounds).
Preconditions of the oracle: all numeric values >= 1 (0 / negative values are treated as "unset" by some
truth tests and are outside the stated domain).
"""
import re

H64 = "./0123456789ABCDEFGHIJKLMNOPQRSTUVWXYZabcdefghijklmnopqrstuvwxyz"
ROUNDS_KEYS = ("min_rounds", "max_rounds", "default_rounds", "vary_rounds", "rounds")


class Invalid(Exception):
    """the configuration is inconsistent: the constructor must refuse it (ValueError / KeyError)"""

    def __init__(self, kind, why):
        Exception.__init__(self, why)
        self.kind = kind  # "ValueError" | "KeyError"


class Ambiguous(Exception):
    """the documentation does not determine the outcome (e.g. inconsistent before clipping, consistent after)"""


# ---------------------------------------------------------------------------------------------
# who claims a hash string (format pages of the documentation)
# ---------------------------------------------------------------------------------------------
_CLAIMS = {
    "sha256_crypt": re.compile(r"^\$5\$"),
    "sha512_crypt": re.compile(r"^\$6\$"),
    "md5_crypt": re.compile(r"^\$1\$"),
    "sha1_crypt": re.compile(r"^\$sha1\$"),
    "pbkdf2_sha256": re.compile(r"^\$pbkdf2-sha256\$"),
    "phpass": re.compile(r"^\$[PH]\$"),
    "ldap_salted_sha1": re.compile(r"^\{SSHA\}[+/a-zA-Z0-9]{27,}={0,2}$"),
    "des_crypt": re.compile(r"^[./0-9A-Za-z]{13}$"),
    "bsdi_crypt": re.compile(r"^_[./0-9A-Za-z]{19}$"),
    "plaintext": re.compile(r"^", re.S),
}


def claims(scheme, h):
    return bool(_CLAIMS[scheme].search(h))


def first_claimant(cfg, h):
    for s in cfg["schemes"]:
        if claims(s, h):
            return s
    return None


_COST = {
    "sha256_crypt": re.compile(r"^\$5\$(?:rounds=(\d+)\$)?"),
    "sha512_crypt": re.compile(r"^\$6\$(?:rounds=(\d+)\$)?"),
    "sha1_crypt": re.compile(r"^\$sha1\$(\d+)\$"),
    "pbkdf2_sha256": re.compile(r"^\$pbkdf2-sha256\$(\d+)\$"),
}


def hash_cost(scheme, h):
    """cost parameter carried by a well-formed hash of that scheme (None: the scheme has none)"""
    if scheme in _COST:
        m = _COST[scheme].match(h)
        return int(m.group(1)) if m.group(1) else 5000  # sha-crypt: implicit 5000
    if scheme == "bsdi_crypt":  # '_' + 4 hash64 digits, least significant first
        return sum(H64.index(c) << (6 * i) for i, c in enumerate(h[1:5]))
    if scheme == "phpass":  # $P$<one hash64 digit = log2 rounds>
        return H64.index(h[3])
    return None


def scheme_flags(scheme, h):
    """'the scheme itself flags it'"""
    if scheme == "bsdi_crypt":
        return hash_cost(scheme, h) % 2 == 0
    return False


# ---------------------------------------------------------------------------------------------
# value normalisation
# ---------------------------------------------------------------------------------------------
def norm_int(v):
    if v is None:
        return None
    return int(v)


def norm_vary(v):
    """int (absolute) or float (proportion); strings: 'NN%', decimal fraction, integer"""
    if v is None or isinstance(v, (int, float)):
        return v
    if v.endswith("%"):
        return float(v[:-1]) * 0.01
    try:
        return int(v)
    except ValueError:
        return float(v)


def norm_list(v):
    if isinstance(v, str):
        return [x.strip() for x in v.split(",") if x.strip()]
    return list(v)


# ---------------------------------------------------------------------------------------------
# default / deprecated
# ---------------------------------------------------------------------------------------------
def categories(cfg):
    return sorted(cfg.get("categories", {}))


def _cat(cfg, cat):
    return cfg.get("categories", {}).get(cat, {}) if cat else {}


def deprecated_spec(cfg, cat):
    """None (nothing configured) | 'auto' | list"""
    c = _cat(cfg, cat)
    v = c["deprecated"] if "deprecated" in c else cfg.get("deprecated")
    if v is None:
        return None
    v = norm_list(v)
    if "auto" in v:
        if len(v) > 1:
            raise Invalid("ValueError", "auto together with other names")
        return "auto"
    return v


def default_scheme(cfg, cat=None):
    c = _cat(cfg, cat)
    explicit = c.get("default") or cfg.get("default")
    if explicit:
        return explicit
    dep = deprecated_spec(cfg, cat)
    for s in cfg["schemes"]:
        if dep is None or dep == "auto" or s not in dep:
            return s
    raise Invalid("ValueError", "every scheme is deprecated")


def is_deprecated(cfg, cat, scheme):
    dep = deprecated_spec(cfg, cat)
    if dep is None:
        return False
    if dep == "auto":
        return scheme != default_scheme(cfg, cat)
    return scheme in dep


# ---------------------------------------------------------------------------------------------
# per scheme options and the cost window
# ---------------------------------------------------------------------------------------------
def effective_options(cfg, scheme, cat, facts):
    out = {}
    layers = [cfg.get("all", {})]
    if cat:
        layers.append(_cat(cfg, cat).get("all", {}))
    for layer in layers:  # the 'all' pseudo scheme only reaches hashers that have the setting
        for k, v in layer.items():
            if k in ROUNDS_KEYS and facts.get(scheme) is None:
                continue
            out[k] = v
    out.update(cfg.get("options", {}).get(scheme, {}))
    if cat:
        out.update(_cat(cfg, cat).get("options", {}).get(scheme, {}))
    return out


def _ilog2_floor(n):
    return n.bit_length() - 1


def _ilog2_ceil(n):
    return (n - 1).bit_length()


def window(f, opts):
    """cost window and generation range of one (scheme, category)

    f: facts of the scheme; opts: effective options.  Returns
    {"lo": int|None, "hi": int|None, "default": int, "glo": int, "ghi": int, "varies": bool, "unsafe": bool}
    lo/hi None = no configured limit.  New hashes carry a cost in glo..ghi (== default when not varied).
    'unsafe': the +/- range would leave the hard limits with no configured limit on that side.
    """
    hmin, hmax = f["hmin"], f["hmax"]
    mn, mx, df = norm_int(opts.get("min_rounds")), norm_int(opts.get("max_rounds")), norm_int(opts.get("default_rounds"))
    r = norm_int(opts.get("rounds"))
    vary = norm_vary(opts.get("vary_rounds"))
    if r is not None:
        mn = r if mn is None else mn
        mx = r if mx is None else mx
        df = r if df is None else df
    for v in (mn, mx, df):
        if v is not None and v < 1:
            raise Ambiguous("value below 1")

    def clip(x):
        return min(max(x, hmin), hmax if hmax is not None else x)

    lo = clip(mn) if mn is not None else None
    hi = clip(mx) if mx is not None else None
    raw_bad = (mn is not None and mx is not None and mx < mn) or (df is not None and ((mn is not None and df < mn) or (mx is not None and df > mx)))
    if raw_bad:
        cd = clip(df) if df is not None else None
        still_bad = (lo is not None and hi is not None and hi < lo) or (cd is not None and ((lo is not None and cd < lo) or (hi is not None and cd > hi)))
        if still_bad:
            raise Invalid("ValueError", "rounds limits / default inconsistent")
        raise Ambiguous("inconsistent as written, consistent after clipping to the hard limits")
    d = clip(df) if df is not None else f["default"]
    if lo is not None and d < lo:
        d = lo
    if hi is not None and d > hi:
        d = hi
    elo = lo if lo is not None else hmin
    ehi = hi if hi is not None else hmax
    glo = ghi = d
    unsafe = False
    varies = False
    if vary is not None:
        if vary < 0 or (isinstance(vary, float) and vary > 1):
            raise Invalid("ValueError", "vary_rounds out of range")
        if vary:
            if isinstance(vary, float) and f["cost"] == "log2":
                D = 1 << d
                V = int(D * vary)
                a = _ilog2_ceil(D - V) if D - V > 0 else 0
                b = _ilog2_floor(D + V)
            else:
                V = int(d * vary) if isinstance(vary, float) else vary
                a, b = d - V, d + V
            unsafe = (lo is None and a < hmin) or (hi is None and ehi is not None and b > ehi)
            glo = max(a, elo)
            ghi = b if ehi is None else min(b, ehi)
            varies = glo < ghi
    return {"lo": lo, "hi": hi, "default": d, "glo": glo, "ghi": ghi, "varies": varies, "unsafe": unsafe}


def scheme_window(cfg, scheme, cat, facts):
    f = facts.get(scheme)
    if f is None:
        return None
    return window(f, effective_options(cfg, scheme, cat, facts))


def validate(cfg, facts):
    """raise Invalid / Ambiguous if the constructor must / may refuse the configuration"""
    schemes = cfg["schemes"]
    if len(set(schemes)) != len(schemes):
        raise Invalid("KeyError", "scheme listed twice")
    for cat in [None] + categories(cfg):
        c = _cat(cfg, cat) if cat else cfg
        if c.get("default") and c["default"] not in schemes:
            raise Invalid("KeyError", "default not among the schemes")
        dep = deprecated_spec(cfg, cat)
        if isinstance(dep, list):
            for s in dep:
                if s not in schemes:
                    raise Invalid("KeyError", "deprecated scheme not among the schemes")
        d = default_scheme(cfg, cat)
        if isinstance(dep, list) and d in dep:
            raise Invalid("ValueError", "default scheme is deprecated")
        for s in schemes:
            scheme_window(cfg, s, cat, facts)


def needs_update(cfg, cat, h, facts):
    """(attributed scheme, needs_update) for a well-formed hash; (None, None) if nobody claims it"""
    s = first_claimant(cfg, h)
    if s is None:
        return None, None
    if is_deprecated(cfg, cat, s):
        return s, True
    w = scheme_window(cfg, s, cat, facts)
    if w is not None:
        c = hash_cost(s, h)
        if (w["lo"] is not None and c < w["lo"]) or (w["hi"] is not None and c > w["hi"]):
            return s, True
    return s, scheme_flags(s, h)


def fresh_cost_ok(scheme, cost, w):
    """is `cost` an admissible cost of a new hash under window w"""
    if w is None:
        return cost is None
    if scheme == "bsdi_crypt":
        # documented: even rounds are avoided (weak DES keys); the odd successor of an admissible value is
        # admissible as long as it stays inside the configured limits
        if cost % 2 == 0:
            return False
        if w["hi"] is not None and cost > w["hi"]:
            return False
        return w["glo"] <= cost <= w["ghi"] or w["glo"] <= cost - 1 <= w["ghi"]
    return w["glo"] <= cost <= w["ghi"]


# ---------------------------------------------------------------------------------------------
# configuration dictionary -> constructor keywords (documented key syntax)
# ---------------------------------------------------------------------------------------------
def to_kwds(cfg):
    kw = {"schemes": list(cfg["schemes"])}
    for k in ("default", "deprecated"):
        if k in cfg:
            kw[k] = cfg[k]
    for k, v in cfg.get("all", {}).items():
        kw[f"all__{k}"] = v
    for s, o in cfg.get("options", {}).items():
        for k, v in o.items():
            kw[f"{s}__{k}"] = v
    for cat, c in cfg.get("categories", {}).items():
        for k in ("default", "deprecated"):
            if k in c:
                kw[f"{cat}__context__{k}"] = c[k]
        for k, v in c.get("all", {}).items():
            kw[f"{cat}__all__{k}"] = v
        for s, o in c.get("options", {}).items():
            for k, v in o.items():
                kw[f"{cat}__{s}__{k}"] = v
    return kw


COERCED = ("min_rounds", "max_rounds", "default_rounds", "salt_size")  # documented integer options


def parse_key(k):
    """documented key syntax: [<category>__]<scheme|context>__<option>, '.' accepted for '__'"""
    parts = k.replace(".", "__").split("__")
    if len(parts) == 1:
        cat, scheme, opt = None, None, parts[0]
    elif len(parts) == 2:
        cat, (scheme, opt) = None, parts
    else:
        cat, scheme, opt = parts
    if cat == "default":
        cat = None
    if scheme == "context":
        scheme = None
    return cat, scheme, opt


def render_key(cat, scheme, opt):
    if cat:
        return f"{cat}__{scheme or 'context'}__{opt}"
    return f"{scheme}__{opt}" if scheme else opt


def normalized_kwds(kw):
    """what an export (to_dict) of a context built from kw is expected to contain: the same keys in the
    canonical spelling, documented integer options as numbers, vary_rounds as a number, scheme lists as lists;
    anything else unchanged"""
    out = {}
    for k, v in kw.items():
        cat, scheme, opt = parse_key(k)
        if scheme is None and opt in ("schemes", "deprecated"):
            v = norm_list(v)
        elif scheme is not None and opt in COERCED and isinstance(v, str):
            v = int(v)
        elif scheme is not None and opt == "vary_rounds":
            v = norm_vary(v)
        if scheme is None and cat is None and opt == "vary_rounds":  # documented global setting = all__vary_rounds
            scheme, v = "all", norm_vary(v)
        out[render_key(cat, scheme, opt)] = v
    return out
