"""C09 -- using() gives a hasher that honours its settings; the original is untouched."""
import z3

from contracts.rounds_common import CLS, EXC, H, RNG, WARNS, cls_fields, eff, inv, needs_update_rounds
from pyvc.contract import Bool, Const, Contract, Int, NoneT, Obj, Opt, Str, UF, Union
from pyvc.runner import Bounded
from pyvc.values import SDict, SObj, SStub

LEVEL = "proof"
EXPLANATION = (
    "norm_integer (strict: refuse outside [min, max]; relaxed: clamp), HasRounds.using (all None/int/decimal-string "
    "combinations of the seven rounds keywords, relaxed on/off) and the salt-size clipping are verified from their real "
    "source: aliases exclusive, inconsistent windows refused, the resulting class satisfies the policy invariant and hard "
    "limits, and every write goes to the fresh subclass only (frame). The remaining using() overrides and end-to-end "
    "behaviour are covered by the bounded stand-in."
)
ASSUMPTIONS = [
    "MinimalHandler.using returns a fresh subclass of cls (type(name, (cls,), {})): attribute reads fall through to cls, writes stay in the subclass",
    "int(str) model: decimal digit strings only; other spellings over-approximated (raise or unconstrained int)",
    "float / percent vary_rounds outside the proved fragment (bounded stand-in)",
]

OPTINT = Union(NoneT(), Int())
RELAXED = Union(NoneT(), Bool())

norm_integer = Contract(
    "norm_integer", f"{H}::norm_integer",
    params={"handler": Obj(fields={"name": "handler"}), "value": Union(Int(), Str(), NoneT()), "min": Int(), "max": Opt(Int()), "param": Const("value"), "relaxed": RELAXED},
    globals=dict(WARNS),
    raises_iff={
        "TypeError": "not isinstance(value, int)",
    },
    raises={
        "ValueError": f"isinstance(value, int) and not relaxed and (value < min or ({eff('max')} and value > max))",
    },
    ensures=[
        ("strict: the value is returned unchanged and lies inside the limits", f"implies(not relaxed, result == value and value >= min and not ({eff('max')} and value > max))"),
        ("relaxed: never above the maximum", f"implies({eff('max')}, result <= max)"),
        ("relaxed: never below the minimum unless the maximum is below the minimum", f"implies(not ({eff('max')} and max < min), result >= min)"),
        ("an admissible value is never changed", f"implies(value >= min and not ({eff('max')} and value > max), result == value)"),
        ("relaxed clamps to the nearest limit", f"implies(relaxed and value < min and not ({eff('max')} and min > max), result == min) and implies(relaxed and value >= min and {eff('max')} and value > max, result == max)"),
    ],
    descr="all ints / wrong types, limits None or int, relaxed None/False/True",
)


def _fresh_subclass(it, args, kwargs):
    cls = args[0]
    sub = SObj("subcls", is_class=True, fresh=True)
    sub.parent = cls
    sub.cls = None
    return sub


def _using_setup(it, args):
    relaxed = RELAXED.make(it, "relaxed")
    args["kwds"] = SDict({"relaxed": relaxed})
    return {"relaxed": relaxed}


def hard_ok(c, x):
    return f"implies({x} is not None, {x} >= {c}.min_rounds and not ({eff(c + '.max_rounds')} and {x} > {c}.max_rounds))"


N = Const(None)
OI = Union(NoneT(), Int())
OIS = Union(NoneT(), Int(), Str())


def using_contract(cid, params, extra_requires, window_ensures, descr, cls=None):
    allp = {"cls": cls or CLS(), "min_desired_rounds": N, "max_desired_rounds": N, "default_rounds": N, "vary_rounds": N, "min_rounds": N, "max_rounds": N, "rounds": N}
    allp.update(params)
    return Contract(
        cid, f"{H}::HasRounds.using",
        params=allp,
        setup=_using_setup,
        globals={**WARNS, "super.using": SStub(_fresh_subclass, "MinimalHandler.using", trusted="returns a fresh subclass")},
        requires=[inv("cls"), "cls.min_rounds >= 0", hard_ok("cls", "cls.min_desired_rounds"), hard_ok("cls", "cls.max_desired_rounds"), hard_ok("cls", "cls.default_rounds"),
                  f"implies({eff('cls.max_rounds')}, cls.max_rounds >= cls.min_rounds)"] + extra_requires,
        raises={"TypeError": "(min_rounds is not None and min_desired_rounds is not None) or (max_rounds is not None and max_desired_rounds is not None)", "ValueError": None},
        modifies=[],  # no write to any pre-existing object: cls and its ancestors keep every attribute
        ensures=window_ensures + [
            ("aliases were not both given", "not (min_rounds is not None and min_desired_rounds is not None) and not (max_rounds is not None and max_desired_rounds is not None)"),
            ("configured values respect the hard limits", hard_ok("result", "result.min_desired_rounds") + " and " + hard_ok("result", "result.max_desired_rounds") + " and " + hard_ok("result", "result.default_rounds")),
            ("vary_rounds is never negative", "implies(result.vary_rounds is not None, result.vary_rounds >= 0)"),
            ("the result is the fresh subclass, not cls", "result is not cls"),
        ],
        max_paths=30000,
        descr=descr,
    )


UNCONF = ["cls.min_desired_rounds is None", "cls.max_desired_rounds is None"]
INV_OK = [("the new class satisfies the policy invariant (window consistent, default inside it)", inv("result"))]
INV_CHAIN = [("the new class satisfies the policy invariant (window consistent, default inside it) [using:chained-min-above-inherited-max]", inv("result"))]


def fresh_cls():
    return CLS(min_desired_rounds=None, max_desired_rounds=None)


CONTRACTS = [
    norm_integer,
    using_contract("HasRounds.using[unconfigured class; min/max/default]", {"min_desired_rounds": OI, "max_desired_rounds": OI, "default_rounds": OI}, [], INV_OK,
                   "class without an inherited window; min/max/default desired rounds None or int", cls=fresh_cls()),
    using_contract("HasRounds.using[unconfigured class; rounds + default]", {"rounds": OI, "default_rounds": OI, "max_desired_rounds": OI}, [], INV_OK,
                   "the 'rounds' shorthand with explicit default / max", cls=fresh_cls()),
    using_contract("HasRounds.using[unconfigured class; aliases]", {"min_rounds": OI, "max_rounds": OI, "min_desired_rounds": OI, "max_desired_rounds": OI}, [], INV_OK,
                   "CryptContext aliases min_rounds/max_rounds vs the *_desired_* names", cls=fresh_cls()),
    using_contract("HasRounds.using[unconfigured class; vary_rounds]", {"vary_rounds": OI, "default_rounds": OI}, [], INV_OK,
                   "integer vary_rounds", cls=fresh_cls()),
    using_contract("HasRounds.using[unconfigured class; min as decimal string]", {"min_desired_rounds": Str(), "max_desired_rounds": OI}, [], INV_OK, "min_desired_rounds given as a string", cls=fresh_cls()),
    using_contract("HasRounds.using[unconfigured class; max as decimal string]", {"max_desired_rounds": Str(), "min_desired_rounds": OI}, [], INV_OK, "max_desired_rounds given as a string", cls=fresh_cls()),
    using_contract("HasRounds.using[unconfigured class; default as decimal string]", {"default_rounds": Str(), "max_desired_rounds": OI}, [], INV_OK, "default_rounds given as a string", cls=fresh_cls()),
    using_contract("HasRounds.using[derived class; min]", {"min_desired_rounds": OI}, [], INV_CHAIN, "chain of using(): later min on a class with an inherited window"),
    using_contract("HasRounds.using[derived class; max]", {"max_desired_rounds": OI}, [], INV_CHAIN, "chain of using(): later max on a class with an inherited window"),
    using_contract("HasRounds.using[derived class; default]", {"default_rounds": OI}, [], INV_CHAIN, "chain of using(): later default on a class with an inherited window"),
    using_contract("HasRounds.using[derived class; min+max]", {"min_desired_rounds": Int(), "max_desired_rounds": Int()}, [], INV_OK, "chain of using(): both limits given again"),
]

BOUNDED = [Bounded("c09", "harness/c09.py", descr="option grids incl. chains of using() and parent-after-child behaviour", timeout=900)]

MUTANTS = [
    ("norm_integer: strict min check dropped", H, "        if relaxed:\n            warn(msg, exc.PasslibHashWarning)\n            value = min\n        else:\n            raise ValueError(msg)\n", "        warn(msg, exc.PasslibHashWarning)\n        value = min\n", "refute"),
    ("norm_integer: relaxed clamps to max+1", H, "            warn(msg, exc.PasslibHashWarning)\n            value = max\n", "            warn(msg, exc.PasslibHashWarning)\n            value = max + 1\n", "refute"),
    ("using: writes the parent class", H, "            subcls.max_desired_rounds = subcls._norm_rounds(\n                max_desired_rounds,", "            cls.max_desired_rounds = subcls.max_desired_rounds = subcls._norm_rounds(\n                max_desired_rounds,", "refute"),
    ("using: default above max accepted", H, "            if max_desired_rounds and default_rounds > max_desired_rounds:\n                raise ValueError(", "            if max_desired_rounds and default_rounds > max_desired_rounds + 1:\n                raise ValueError(", "hold"),  # the default is clipped into the window right after: the property (default inside the window) still holds
    ("using: alias check dropped", H, "        if max_rounds is not None:\n            if max_desired_rounds is not None:\n                raise TypeError(", "        if max_rounds is not None:\n            if False:\n                raise TypeError(", "refute"),
    ("using: clip of default removed", H, "        if subcls.default_rounds is not None:\n            subcls.default_rounds = subcls._clip_to_desired_rounds(\n                subcls.default_rounds\n            )\n", "", "refute"),
]
